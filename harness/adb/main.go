// Harness adb — C06 (revert to a journal snapshot is exact) and C07 (code entries are
// reference-counted correctly).
//
// Explicit-state BFS (mc.BFS) over the REAL state.NewAccountsDB + real patricia-merkle trie
// + real trieStorageManager (in-memory DBs) + real storagePruningManager/evictionWaitingList.
// Every operation goes through the API the transaction processors use: LoadAccount, mutate
// the returned account, SaveAccount / RemoveAccount / JournalLen / RevertToSnapshot / Commit.
// The reference model is a plain Go map of accounts; a snapshot is a deep copy of it.
// The oracle evaluated is chosen by --property (c.Prop): one property's violation never fails
// the other's check.
package main

import (
	"bytes"
	"crypto/sha256"
	"encoding/hex"
	"encoding/json"
	"fmt"
	"math/big"
	"os"
	"runtime"
	"runtime/debug"
	"runtime/pprof"
	"sort"
	"strings"
	"time"

	logger "github.com/ElrondNetwork/elrond-go-logger"
	"github.com/ElrondNetwork/elrond-go/config"
	"github.com/ElrondNetwork/elrond-go/data"
	"github.com/ElrondNetwork/elrond-go/data/state"
	"github.com/ElrondNetwork/elrond-go/data/state/factory"
	"github.com/ElrondNetwork/elrond-go/data/state/storagePruningManager"
	"github.com/ElrondNetwork/elrond-go/data/state/storagePruningManager/evictionWaitingList"
	"github.com/ElrondNetwork/elrond-go/data/trie"
	"github.com/ElrondNetwork/elrond-go/data/trie/hashesHolder"
	"github.com/ElrondNetwork/elrond-go/hashing/blake2b"
	"github.com/ElrondNetwork/elrond-go/marshal"
	"github.com/ElrondNetwork/elrond-go/storage/memorydb"
	"verif/engine/mc"
)

// ---------------------------------------------------------------- alphabet

var (
	addrA = bytes.Repeat([]byte{0xA1}, 32)
	addrB = bytes.Repeat([]byte{0xB2}, 32)
	// S looks like a smart-contract address (8 zero bytes + VM type), the others like wallets.
	addrS = append(append(make([]byte, 8), 5, 0), bytes.Repeat([]byte{0x5C}, 22)...)
	addrs = map[string][]byte{"A": addrA, "B": addrB, "S": addrS}
	names = []string{"A", "B", "S"}

	codes = map[string][]byte{"c1": []byte("code-one"), "c2": []byte("code-two-longer"), "": nil}
	keys  = map[string][]byte{"k1": []byte("k1"), "k2": []byte("key2")}
	knames = []string{"k1", "k2"}
	vals  = map[string][]byte{"x": []byte("x"), "y": []byte("yy"), "": nil}
	meta1 = []byte{1, 0}

	hasher      = blake2b.NewBlake2b()
	marshalizer = &marshal.GogoProtoMarshalizer{}
)

const (
	kBal = iota
	kNonce
	kOwner
	kMeta
	kCode
	kStore
	kRemove
	kSnapshot
	kRevertSnap // arg = index from the top of the snapshot stack (0 = latest)
	kRevertZero
	kCommit
)

type opDef struct {
	name string
	kind int
	who  string // account name
	a, b string // arguments (code name / key, value)
	n    int
}

const maxSnaps = 3
const maxNonce = 2

func buildMenu() []opDef {
	m := []opDef{
		{name: "bal(A,1)", kind: kBal, who: "A", n: 1},
		{name: "bal(S,1)", kind: kBal, who: "S", n: 1},
		{name: "bal(S,2)", kind: kBal, who: "S", n: 2},
		{name: "nonce(S)", kind: kNonce, who: "S"},
		{name: "owner(S,A)", kind: kOwner, who: "S"},
		{name: "meta(S)", kind: kMeta, who: "S"},
		{name: "code(S,c1)", kind: kCode, who: "S", a: "c1"},
		{name: "code(S,c2)", kind: kCode, who: "S", a: "c2"},
		{name: "code(S,-)", kind: kCode, who: "S", a: ""},
		{name: "code(B,c1)", kind: kCode, who: "B", a: "c1"},
		{name: "code(B,-)", kind: kCode, who: "B", a: ""},
		{name: "store(S,k1,x)", kind: kStore, who: "S", a: "k1", b: "x"},
		{name: "store(S,k1,y)", kind: kStore, who: "S", a: "k1", b: "y"},
		{name: "store(S,k1,-)", kind: kStore, who: "S", a: "k1", b: ""},
		{name: "store(S,k2,x)", kind: kStore, who: "S", a: "k2", b: "x"},
		{name: "store(B,k1,x)", kind: kStore, who: "B", a: "k1", b: "x"},
		{name: "remove(S)", kind: kRemove, who: "S"},
		{name: "remove(B)", kind: kRemove, who: "B"},
		{name: "snapshot", kind: kSnapshot},
	}
	for i := 0; i < maxSnaps; i++ {
		m = append(m, opDef{name: fmt.Sprintf("revert(snap top-%d)", i), kind: kRevertSnap, n: i})
	}
	m = append(m, opDef{name: "revert(0)", kind: kRevertZero}, opDef{name: "commit", kind: kCommit})
	return m
}

// ---------------------------------------------------------------- reference model

type racct struct {
	Bal   int64
	Nonce uint64
	Owner string // hex
	Code  string // code name ("" = none)
	Meta  string // hex
	Store map[string]string
}

type rstate map[string]*racct

func (r rstate) clone() rstate {
	c := rstate{}
	for k, a := range r {
		n := *a
		n.Store = map[string]string{}
		for sk, sv := range a.Store {
			n.Store[sk] = sv
		}
		c[k] = &n
	}
	return c
}

func (r rstate) String() string {
	var sb strings.Builder
	for _, n := range names {
		a, ok := r[n]
		if !ok {
			continue
		}
		fmt.Fprintf(&sb, "%s{b%d n%d o%s c%s m%s", n, a.Bal, a.Nonce, a.Owner, a.Code, a.Meta)
		for _, k := range knames {
			if v, ok := a.Store[k]; ok {
				fmt.Fprintf(&sb, " %s=%s", k, v)
			}
		}
		sb.WriteString("}")
	}
	return sb.String()
}

func (r rstate) get(n string) *racct {
	a, ok := r[n]
	if !ok {
		a = &racct{Store: map[string]string{}}
		r[n] = a
	}
	return a
}

// ---------------------------------------------------------------- observation of the implementation

type oacct struct {
	Exists   bool
	Bal      string
	Nonce    uint64
	Owner    string
	CodeHash string
	Code     string // hex of GetCode(codeHash)
	Meta     string
	DataRoot string
	Store    map[string]string // key name -> hex value ("" = empty)
	Err      string
}

type obs struct {
	Root string
	Acc  map[string]*oacct
}

type snap struct {
	jlen int
	ref  rstate
	obs  *obs
}

type world struct {
	prop string
	adb  *state.AccountsDB
	tsm  data.StorageManager
	db   *memorydb.DB

	ref           rstate
	committed     rstate
	committedRoot string
	snaps         []snap

	// result of the last step
	sig, detail string
	nt, out     string
	cur         *obs
}

func newWorld(prop string) *world {
	db := memorydb.New()
	cfg := config.TrieStorageManagerConfig{PruningBufferLen: 1000, SnapshotsBufferLen: 10, MaxSnapshots: 2}
	tsm, err := trie.NewTrieStorageManager(trie.NewTrieStorageManagerArgs{
		DB: db, Marshalizer: marshalizer, Hasher: hasher,
		SnapshotDbConfig:       config.DBConfig{Type: "MemoryDB"},
		GeneralConfig:          cfg,
		CheckpointHashesHolder: hashesHolder.NewCheckpointHashesHolder(10000000, uint64(hasher.Size())),
	})
	must(err)
	tr, err := trie.NewTrie(tsm, marshalizer, hasher, 5)
	must(err)
	ewl, err := evictionWaitingList.NewEvictionWaitingList(100, memorydb.New(), marshalizer)
	must(err)
	spm, err := storagePruningManager.NewStoragePruningManager(ewl, cfg.PruningBufferLen)
	must(err)
	adb, err := state.NewAccountsDB(tr, hasher, marshalizer, factory.NewAccountCreator(), spm)
	must(err)
	w := &world{prop: prop, adb: adb, tsm: tsm, db: db, ref: rstate{}, committed: rstate{}}
	w.cur = w.observe()
	w.committedRoot = w.cur.Root
	return w
}

func must(err error) {
	if err != nil {
		panic(err)
	}
}

func (w *world) close() {
	_ = w.adb.Close()
	_ = w.tsm.Close()
}

func hx(b []byte) string { return hex.EncodeToString(b) }

// observe reads the complete state back through the public API only.
func (w *world) observe() *obs {
	o := &obs{Acc: map[string]*oacct{}}
	rh, err := w.adb.RootHash()
	o.Root = hx(rh)
	if err != nil {
		o.Root = "ERR:" + err.Error()
	}
	for _, n := range names {
		oa := &oacct{Store: map[string]string{}}
		o.Acc[n] = oa
		acc, err := w.adb.GetExistingAccount(addrs[n])
		if err == state.ErrAccNotFound {
			continue
		}
		if err != nil {
			oa.Err = err.Error()
			continue
		}
		ua, ok := acc.(state.UserAccountHandler)
		if !ok {
			oa.Err = "not a user account"
			continue
		}
		oa.Exists = true
		oa.Bal = ua.GetBalance().String()
		oa.Nonce = ua.GetNonce()
		oa.Owner = hx(ua.GetOwnerAddress())
		oa.CodeHash = hx(ua.GetCodeHash())
		oa.Code = hx(w.adb.GetCode(ua.GetCodeHash()))
		oa.Meta = hx(ua.GetCodeMetadata())
		oa.DataRoot = hx(ua.GetRootHash())
		for _, k := range knames {
			v, err := ua.DataTrieTracker().RetrieveValue(append([]byte{}, keys[k]...))
			if err != nil && err != state.ErrNilTrie {
				oa.Store[k] = "ERR:" + err.Error()
				continue
			}
			oa.Store[k] = hx(v)
		}
	}
	return o
}

// diffRef lists the field classes in which the implementation differs from the reference.
func diffRef(o *obs, r rstate) []string {
	var d []string
	for _, n := range names {
		oa, ra := o.Acc[n], r[n]
		if oa.Err != "" {
			d = append(d, "account-unreadable")
			continue
		}
		if oa.Exists != (ra != nil) {
			d = append(d, "account-existence")
			continue
		}
		if ra == nil {
			continue
		}
		if oa.Bal != fmt.Sprint(ra.Bal) {
			d = append(d, "balance")
		}
		if oa.Nonce != ra.Nonce {
			d = append(d, "nonce")
		}
		if oa.Owner != ra.Owner {
			d = append(d, "owner")
		}
		if oa.Meta != ra.Meta {
			d = append(d, "code-metadata")
		}
		wantCode := hx(codes[ra.Code])
		if oa.Code != wantCode || (ra.Code == "") != (oa.CodeHash == "") {
			d = append(d, "code")
		}
		for _, k := range knames {
			if oa.Store[k] != hx(vals[ra.Store[k]]) {
				d = append(d, "storage-value")
			}
		}
	}
	return uniq(d)
}

// diffObs lists the field classes in which two observations differ.
func diffObs(a, b *obs) []string {
	var d []string
	if a.Root != b.Root {
		d = append(d, "state-root")
	}
	for _, n := range names {
		x, y := a.Acc[n], b.Acc[n]
		if x.Exists != y.Exists || x.Err != y.Err {
			d = append(d, "account-existence")
			continue
		}
		if x.Bal != y.Bal {
			d = append(d, "balance")
		}
		if x.Nonce != y.Nonce {
			d = append(d, "nonce")
		}
		if x.Owner != y.Owner {
			d = append(d, "owner")
		}
		if x.Meta != y.Meta {
			d = append(d, "code-metadata")
		}
		if x.Code != y.Code || x.CodeHash != y.CodeHash {
			d = append(d, "code")
		}
		if x.DataRoot != y.DataRoot {
			d = append(d, "data-root")
		}
		for _, k := range knames {
			if x.Store[k] != y.Store[k] {
				d = append(d, "storage-value")
			}
		}
	}
	return uniq(d)
}

func uniq(d []string) []string {
	sort.Strings(d)
	var r []string
	for i, s := range d {
		if i == 0 || d[i-1] != s {
			r = append(r, s)
		}
	}
	return r
}

// ---------------------------------------------------------------- operations

func (w *world) enabled(op opDef) bool {
	switch op.kind {
	case kNonce:
		a := w.ref[op.who]
		return a == nil || a.Nonce < maxNonce
	case kRemove:
		return w.ref[op.who] != nil
	case kSnapshot:
		jl := w.adb.JournalLen()
		if jl == 0 || len(w.snaps) >= maxSnaps {
			return false // a snapshot at length 0 is "revert(0)"
		}
		return len(w.snaps) == 0 || w.snaps[len(w.snaps)-1].jlen != jl
	case kRevertSnap:
		return op.n < len(w.snaps)
	}
	return true
}

// accountOp = LoadAccount, mutate, SaveAccount (or RemoveAccount), as the tx/sc processors do.
func (w *world) accountOp(op opDef) error {
	addr := append([]byte{}, addrs[op.who]...)
	if op.kind == kRemove {
		return w.adb.RemoveAccount(addr)
	}
	acc, err := w.adb.LoadAccount(addr)
	if err != nil {
		return err
	}
	ua := acc.(state.UserAccountHandler)
	switch op.kind {
	case kBal:
		delta := big.NewInt(0).Sub(big.NewInt(int64(op.n)), ua.GetBalance())
		if delta.Sign() >= 0 {
			err = ua.AddToBalance(delta)
		} else {
			err = ua.SubFromBalance(delta.Neg(delta))
		}
	case kNonce:
		ua.IncreaseNonce(1)
	case kOwner:
		ua.SetOwnerAddress(append([]byte{}, addrA...))
	case kMeta:
		ua.SetCodeMetadata(append([]byte{}, meta1...))
	case kCode:
		var c []byte
		if op.a != "" {
			c = append([]byte{}, codes[op.a]...)
		}
		ua.SetCode(c)
	case kStore:
		var v []byte
		if op.b != "" {
			v = append([]byte{}, vals[op.b]...)
		}
		err = ua.DataTrieTracker().SaveKeyValue(append([]byte{}, keys[op.a]...), v)
	}
	if err != nil {
		return err
	}
	return w.adb.SaveAccount(ua)
}

func (w *world) refApply(op opDef) {
	if op.kind == kRemove {
		delete(w.ref, op.who)
		return
	}
	a := w.ref.get(op.who)
	switch op.kind {
	case kBal:
		a.Bal = int64(op.n)
	case kNonce:
		a.Nonce++
	case kOwner:
		a.Owner = hx(addrA)
	case kMeta:
		a.Meta = hx(meta1)
	case kCode:
		a.Code = op.a
	case kStore:
		if op.b == "" {
			delete(a.Store, op.a)
		} else {
			a.Store[op.a] = op.b
		}
	}
}

func codeRefs(r rstate) map[string]int {
	m := map[string]int{}
	for _, a := range r {
		if a.Code != "" {
			m[a.Code]++
		}
	}
	return m
}

func (w *world) fail(sig string, detail interface{}) {
	if w.sig == "" {
		w.sig = sig
		switch d := detail.(type) {
		case string:
			w.detail = d
		case error:
			w.detail = d.Error()
		default:
			b, _ := json.Marshal(d)
			w.detail = string(b)
		}
	}
}

func (w *world) do(op opDef) {
	w.sig, w.detail, w.nt, w.out = "", "", "", ""
	pre := w.adb.JournalLen()
	refsBefore := codeRefs(w.ref)
	var expect *obs // exact observation demanded after a revert
	var revKinds []string
	reverted := ""
	switch op.kind {
	case kSnapshot:
		w.snaps = append(w.snaps, snap{jlen: pre, ref: w.ref.clone(), obs: w.cur})
		w.out = "snapshot"
	case kRevertSnap:
		idx := len(w.snaps) - 1 - op.n
		s := w.snaps[idx]
		revKinds = state.VerifJournalKinds(w.adb, s.jlen)
		if err := w.adb.RevertToSnapshot(s.jlen); err != nil {
			w.fail("revert-to-recorded-length-returned-error", err)
		}
		w.ref = s.ref.clone()
		w.snaps = w.snaps[:idx+1]
		expect = s.obs
		reverted = "snapshot"
		if jl := w.adb.JournalLen(); jl != s.jlen {
			w.fail("journal-length-after-revert-differs", fmt.Sprint(jl, " want ", s.jlen))
		}
	case kRevertZero:
		revKinds = state.VerifJournalKinds(w.adb, 0)
		if err := w.adb.RevertToSnapshot(0); err != nil {
			w.fail("revert-to-zero-returned-error", err)
		}
		w.ref = w.committed.clone()
		w.snaps = nil
		reverted = "zero"
	case kCommit:
		root, err := w.adb.Commit()
		if err != nil {
			w.fail("commit-returned-error", err)
		}
		w.committed = w.ref.clone()
		w.committedRoot = hx(root)
		w.snaps = nil
		w.out = "commit"
	default:
		err := w.accountOp(op)
		if err != nil {
			// what scProcessor/txProcessor do: revert to the journal length before the operation
			w.out = "op-error:" + op.name[:strings.Index(op.name, "(")] + ":" + errClass(err)
			if e2 := w.adb.RevertToSnapshot(pre); e2 != nil {
				w.fail("revert-after-failed-operation-returned-error", e2)
			}
			if pre == 0 {
				// RevertToSnapshot(0) = last committed state; nothing was journaled before
				w.snaps = nil
			}
			expect = w.cur
			reverted = "failed-op"
		} else {
			w.refApply(op)
			w.out = "ok:" + op.name[:strings.Index(op.name, "(")]
		}
	}
	prev := w.cur
	w.cur = w.observe()

	switch w.prop {
	case "C06":
		w.checkC06(op, expect, reverted, revKinds)
	case "C07":
		w.checkC07(op, refsBefore)
	}
	_ = prev
}

func errClass(err error) string {
	s := err.Error()
	if i := strings.IndexAny(s, ":0123456789"); i > 0 {
		s = s[:i]
	}
	return strings.TrimSpace(s)
}

// C06: after every revert the observation equals the one recorded with the snapshot (state
// root, every field, every storage value) and the reference copy; revert(0) gives the last
// committed reference and the root returned by the last Commit. Sanity after every other
// operation: implementation == reference.
func (w *world) checkC06(op opDef, expect *obs, reverted string, revKinds []string) {
	dr := diffRef(w.cur, w.ref)
	if reverted == "" {
		if len(dr) > 0 {
			w.fail("state-differs-from-reference-after-operation:"+strings.Join(dr, "+"),
				map[string]interface{}{"got": w.cur, "want": w.ref.String()})
		}
		return
	}
	var d []string
	if expect != nil {
		d = diffObs(w.cur, expect)
	} else if w.cur.Root != w.committedRoot {
		d = []string{"state-root"}
	}
	d = uniq(append(d, dr...))
	if len(d) > 0 {
		what := map[string]interface{}{"got": w.cur, "want_reference": w.ref.String()}
		if expect != nil {
			what["want_recorded"] = expect
		} else {
			what["want_root"] = w.committedRoot
		}
		w.fail("revert-"+reverted+"-inexact:"+strings.Join(d, "+"), what)
	}
	w.out = "revert-" + reverted + ":" + fmt.Sprint(len(revKinds))
	if reverted != "failed-op" {
		ks := uniq(append([]string{}, revKinds...))
		if len(ks) >= 2 {
			w.nt = reverted + ":" + strings.Join(revKinds, ",")
		}
	} else {
		w.out += ":" + op.name
	}
}

// C07: for every possible code hash: entry exists in the main trie iff >=1 account refers to
// it, NumReferences == number of such accounts, and the stored code hashes to its key.
func (w *world) checkC07(op opDef, refsBefore map[string]int) {
	mt := state.VerifMainTrie(w.adb)
	var outs []string
	for _, cn := range []string{"c1", "c2"} {
		h := hasher.Compute(string(codes[cn]))
		users := 0
		for _, n := range names {
			if oa := w.cur.Acc[n]; oa.Exists && oa.CodeHash == hx(h) {
				users++
			}
		}
		val, err := mt.Get(h)
		if err != nil {
			w.fail("code-entry-unreadable", err)
			continue
		}
		if len(val) == 0 {
			if users > 0 {
				w.fail("code-entry-missing-while-referenced", fmt.Sprintf("%s: %d accounts refer to it, no entry", cn, users))
			}
			outs = append(outs, cn+":-")
			continue
		}
		var ce state.CodeEntry
		if err := marshalizer.Unmarshal(&ce, val); err != nil {
			w.fail("code-entry-undecodable", err)
			continue
		}
		if users == 0 {
			w.fail("code-entry-present-without-referrer", fmt.Sprintf("%s: NumReferences=%d, 0 accounts refer to it", cn, ce.NumReferences))
		} else if int(ce.NumReferences) != users {
			w.fail("code-entry-refcount-wrong", fmt.Sprintf("%s: NumReferences=%d, %d accounts refer to it", cn, ce.NumReferences, users))
		}
		if !bytes.Equal(ce.Code, codes[cn]) {
			w.fail("code-entry-bytes-wrong", cn)
		}
		outs = append(outs, fmt.Sprintf("%s:%d", cn, users))
		// non-trivial: code shared by 2 accounts and this step took one reference away
		if refsBefore[cn] == 2 && codeRefs(w.ref)[cn] == 1 {
			w.nt = "shared-" + cn + "-dropped-by:" + op.name
		}
	}
	w.out = strings.Join(outs, " ") + "|" + w.out
	// the accounts' code hashes must be the ones the reference expects (keeps the count above
	// from being vacuous); a mismatch is a C06-type failure and is reported as such here too
	for _, n := range names {
		ra := w.ref[n]
		oa := w.cur.Acc[n]
		want := ""
		if ra != nil && ra.Code != "" {
			want = hx(hasher.Compute(string(codes[ra.Code])))
		}
		if oa.CodeHash != want {
			w.fail("account-code-hash-differs-from-reference", fmt.Sprintf("%s: got %s want %s", n, oa.CodeHash, want))
		}
	}
}

// ---------------------------------------------------------------- canonical state key

func (w *world) key() string {
	var sb strings.Builder
	fmt.Fprintf(&sb, "root=%s last=%s croot=%s\n", w.cur.Root, hx(state.VerifLastRootHash(w.adb)), w.committedRoot)
	lt := state.VerifLoadedDataTries(w.adb)
	lk := make([]string, 0, len(lt))
	for a, t := range lt {
		rh, _ := t.RootHash()
		lk = append(lk, hx([]byte(a))[:4]+"="+hx(rh))
	}
	sort.Strings(lk)
	fmt.Fprintf(&sb, "loaded=%v obsolete=%v\n", lk, state.VerifObsoleteRoots(w.adb))
	// DB content decides whether Recreate(root) of an older data trie succeeds
	var dk []string
	w.db.RangeKeys(func(k, _ []byte) bool { dk = append(dk, string(k)); return true })
	sort.Strings(dk)
	h := sha256.New()
	for _, k := range dk {
		h.Write([]byte(k))
		h.Write([]byte{0})
	}
	fmt.Fprintf(&sb, "db=%d:%x\n", len(dk), h.Sum(nil)[:12])
	fmt.Fprintf(&sb, "ref=%s\ncommitted=%s\n", w.ref.String(), w.committed.String())
	// journal: only the part above the lowest live snapshot can ever be undone entry by entry
	// (RevertToSnapshot(0) and Commit discard it wholesale)
	if len(w.snaps) > 0 {
		base := w.snaps[0].jlen
		for _, s := range w.snaps {
			fmt.Fprintf(&sb, "snap@%d root=%s ref=%s\n", s.jlen-base, s.obs.Root, s.ref.String())
		}
		for _, e := range state.VerifJournalDescribe(w.adb, base) {
			sb.WriteString(e)
			sb.WriteByte('\n')
		}
	}
	if w.adb.JournalLen() == 0 {
		sb.WriteString("journal-empty\n")
	}
	return sb.String()
}

// ---------------------------------------------------------------- main

func main() {
	_ = logger.SetLogLevel("*:NONE")
	// the search allocates short-lived tries at a high rate on a tiny live heap: with the
	// default GC target the collector runs (and stops the world) hundreds of times per second
	debug.SetGCPercent(-1)
	debug.SetMemoryLimit(3 << 30)
	if pf := os.Getenv("VERIF_PPROF"); pf != "" {
		f, _ := os.Create(pf)
		pprof.StartCPUProfile(f)
		runtime.SetBlockProfileRate(10000)
		go func() {
			time.Sleep(40 * time.Second)
			pprof.StopCPUProfile()
			f.Close()
			g, _ := os.Create(pf + ".block")
			pprof.Lookup("block").WriteTo(g, 0)
			g.Close()
		}()
	}
	mc.Main("C06", "model_checking", func(c *mc.Ctx) {
		if c.Prop != "C06" && c.Prop != "C07" {
			c.Fatal("harness adb serves C06 and C07, not %s", c.Prop)
		}
		c.Level = "model_checking"
		menu := buildMenu()
		mnames := make([]string, len(menu))
		for i, o := range menu {
			mnames[i] = o.name
		}
		depth := c.Pick(4, 6)
		if c.Quick() {
			c.Deadline = time.Now().Add(80 * time.Second)
		} else {
			c.Deadline = time.Now().Add(14 * time.Minute)
		}
		c.Set("alphabet", mnames)
		switch c.Prop {
		case "C06":
			c.Rule = "non-trivial = a RevertToSnapshot (to a recorded journal length or to 0) whose undone journal span contains >= 2 different journal-entry kinds (key = the kind sequence of the span)"
		case "C07":
			c.Rule = "non-trivial = a step (operation or revert) after which a code that was shared by 2 accounts is referenced by 1 (key = code + operation)"
		}
		c.Assumptions = []string{
			"accounts A,B,S; codes c1,c2; keys k1,k2; values x,yy; balances {1,2}; nonce <= 2; every operation is LoadAccount+mutate+SaveAccount (or RemoveAccount) with fresh byte slices",
			"snapshots are taken at operation boundaries only (the only ones the API produces); recorded lengths are dropped at Commit and when a revert goes below them; at most 3 live snapshots",
			"an operation returning an error is followed by RevertToSnapshot(length before the operation), as scProcessor/txProcessor do, and is then judged like any revert",
			"after every operation the whole state is read back through GetExistingAccount/GetCode/RetrieveValue (this loads data tries into AccountsDB.dataTries, as later transactions of a block would)",
			"state matching key = main root, lastRootHash, loaded data tries (address->root), obsolete data-trie roots, DB key set, reference + committed reference, live snapshots and the serialized journal entries above the lowest live snapshot; entries below it are never read by RevertToSnapshot; trie-internal caching/dirty flags and the eviction waiting list are assumed not to influence reads (no pruning calls in the alphabet)",
		}
		st := mc.BFS(c, mc.Sys[*world]{
			Init:    func() *world { return newWorld(c.Prop) },
			Menu:    mnames,
			Enabled: func(w *world, op int) bool { return w.enabled(menu[op]) },
			Do: func(w *world, op int) (string, string) {
				w.do(menu[op])
				return w.sig, w.detail
			},
			Check:      func(w *world) (string, string) { return "", "" },
			Key:        func(w *world) string { return w.key() },
			Nontrivial: func(w *world) string { return w.nt },
			Outcome:    func(w *world) string { return w.out },
			Close:      func(w *world) { w.close() },
		}, depth)
		c.Bound = fmt.Sprintf("all operation sequences of length <= %d over the %d-operation alphabet (depth reached %d, fixpoint=%v)", depth, len(menu), st.Depth, st.Fixpoint)
	})
}
