package main

// (c) operation sequences on the coordinator: every sequence of at most D operations from
//     P1a / P1b   EpochStartPrepare for epoch 1 with previous-random seed a / b
//     A1          EpochStartAction for epoch 1            (enabled once epoch 1 is configured)
//     P2          EpochStartPrepare for epoch 2           (enabled once epoch 1 is current)
//     A2          EpochStartAction for epoch 2            (enabled once epoch 2 is configured)
//     Q           query every (randomness, shard, configured epoch) — fills the group cache
// is applied to a coordinator with a large real LRU group cache and, in lockstep, to one whose
// cache never hits. After each sequence every query must give, on the cached coordinator, a
// group of the configured size made of distinct members of the shard's eligible list *as the
// coordinator currently reports it* for that epoch, and the same group as the cache-less
// coordinator. Sequences are prefix-closed, so judging the end of each one judges every
// intermediate state too.

import (
	"fmt"
	"strings"

	"verif/engine/mc"
)

type neverHitCache struct{}

func (neverHitCache) Clear()                                   {}
func (neverHitCache) Put(_ []byte, _ interface{}, _ int) bool { return false }
func (neverHitCache) Get(_ []byte) (interface{}, bool)        { return nil, false }

var seqOps = []string{"P1a", "P1b", "A1", "P2", "A2", "Q"}

type seqNode struct {
	t        e2eTask
	nc       coord
	cached   bool
	known    map[uint32]bool // epochs with a configuration
	current  uint32
	rands    [][]byte
	filled   int
	prepared map[uint32]int // number of prepares seen per epoch
}

func newSeqNode(c *mc.Ctx, t e2eTask, cached bool, rands [][]byte) *seqNode {
	n := &seqNode{t: t, cached: cached, known: map[uint32]bool{0: true}, rands: rands, prepared: map[uint32]int{}}
	if cached {
		n.nc = t.build(c, 25000)
	} else {
		n.nc = t.buildWith(c, neverHitCache{})
	}
	return n
}

func (n *seqNode) enabled(op string) bool {
	switch op {
	case "A1":
		return n.known[1]
	case "P2":
		return n.current == 1
	case "A2":
		return n.known[2]
	}
	return true
}

func (n *seqNode) prepare(c *mc.Ctx, epoch uint32, seed string) {
	l, err := readLists(n.nc, n.current)
	if err != nil {
		c.Fatal("seq: %v", err)
	}
	var recs []rec
	for _, s := range l.shards {
		for i, k := range l.eligible[s] {
			recs = append(recs, rec{PK: k, Shard: s, List: "eligible", Index: uint32(i), Rating: uint32(1 + (i+1)%3)})
		}
		for i, k := range l.waiting[s] {
			recs = append(recs, rec{PK: k, Shard: s, List: "waiting", Index: uint32(i), Rating: uint32(1 + i%3)})
		}
	}
	hdr, body := epochStartInputs(epoch, []byte("prev-rand-seed-"+seed), recs)
	n.nc.EpochStartPrepare(hdr, body)
	if _, err := n.nc.GetAllEligibleValidatorsPublicKeys(epoch); err == nil {
		n.known[epoch] = true
	}
	n.prepared[epoch]++
}

func (n *seqNode) apply(c *mc.Ctx, op string) {
	switch op {
	case "P1a":
		n.prepare(c, 1, "a")
	case "P1b":
		n.prepare(c, 1, "b")
	case "P2":
		n.prepare(c, 2, "a")
	case "A1", "A2":
		e := uint32(op[1] - '0')
		hdr, _ := epochStartInputs(e, []byte("unused"), nil)
		n.nc.EpochStartAction(hdr)
		n.current = e
	case "Q":
		for _, q := range n.queries() {
			_, _ = n.nc.ComputeConsensusGroup(n.rands[q.r], q.round, q.shard, q.epoch)
		}
		n.filled++
	}
}

func (n *seqNode) queries() []query {
	var qs []query
	for r := range n.rands {
		for _, s := range []uint32{0, 1, meta} {
			for e := uint32(0); e <= 2; e++ {
				if n.known[e] {
					qs = append(qs, query{r, 0, s, e})
				}
			}
		}
	}
	return qs
}

func runSequences(c *mc.Ctx, depth int) {
	var tasks []e2eTask
	for _, l := range layouts {
		for _, r := range []bool{false, true} {
			tasks = append(tasks, e2eTask{l, r, "blake2b", layoutsHasher})
		}
	}
	rands := randomnessValues(12)[9:] // three hash-derived values
	// one work item per (task, first operation)
	type item struct {
		t     e2eTask
		first int
	}
	var items []item
	for _, t := range tasks {
		for f := range seqOps {
			items = append(items, item{t, f})
		}
	}
	mc.Par(len(items), func(i int) {
		it := items[i]
		seqDFS(c, it.t, rands, []string{seqOps[it.first]}, depth)
	})
}

// seqDFS judges the sequence `seq` (if every operation of it is enabled in turn) and all its
// extensions up to the depth bound. Successor = replay on fresh coordinators.
func seqDFS(c *mc.Ctx, t e2eTask, rands [][]byte, seq []string, depth int) {
	a, b := newSeqNode(c, t, true, rands), newSeqNode(c, t, false, rands)
	for _, op := range seq {
		if !a.enabled(op) {
			return
		}
		a.apply(c, op)
		b.apply(c, op)
	}
	seqJudge(c, t, a, b, seq)
	if len(seq) >= depth {
		return
	}
	for _, op := range seqOps {
		if a.enabled(op) {
			seqDFS(c, t, rands, append(append([]string{}, seq...), op), depth)
		}
	}
}

func seqJudge(c *mc.Ctx, t e2eTask, a, b *seqNode, seq []string) {
	c.AddTraces(1)
	variant := map[bool]string{false: "plain", true: "rater"}[t.rater]
	viol := func(sig string, q query, d map[string]interface{}) {
		d["setup"] = t.lay.name + "/" + variant
		d["sequence"] = seq
		d["randomness_hex"] = mc.Hex(a.rands[q.r])
		d["shard"] = shardName(q.shard)
		d["epoch"] = q.epoch
		c.ViolationR("seq:"+sig, len(seq), d, nil)
	}
	elig := map[uint32]map[uint32]map[string]bool{}
	for e := range a.known {
		l, err := readLists(a.nc, e)
		if err != nil {
			c.Fatal("seq: %v", err)
		}
		elig[e] = map[uint32]map[string]bool{}
		for _, s := range l.shards {
			elig[e][s] = map[string]bool{}
			for _, k := range l.eligible[s] {
				elig[e][s][k] = true
			}
		}
	}
	stale := false
	for _, q := range a.queries() {
		c.Eval(1)
		ga, ea := a.nc.ComputeConsensusGroup(a.rands[q.r], q.round, q.shard, q.epoch)
		gb, eb := b.nc.ComputeConsensusGroup(b.rands[q.r], q.round, q.shard, q.epoch)
		if ea != nil || eb != nil {
			viol("error-for-known-inputs", q, map[string]interface{}{"cached": fmt.Sprint(ea), "cacheless": fmt.Sprint(eb)})
			continue
		}
		ka, kb := groupKey(ga), groupKey(gb)
		if ka != kb {
			viol("group-differs:cached-vs-cacheless", q, map[string]interface{}{"cached": ka, "cacheless": kb})
		}
		want := t.lay.shardG
		if q.shard == meta {
			want = t.lay.metaG
		}
		if len(ga) != want {
			viol("wrong-size", q, map[string]interface{}{"got": len(ga), "want": want})
		}
		seen := map[string]bool{}
		for _, v := range ga {
			pk := string(v.PubKey())
			if seen[pk] {
				viol("duplicate-member", q, map[string]interface{}{"member": pk, "group": ka})
			}
			seen[pk] = true
			if !elig[q.epoch][q.shard][pk] {
				viol("member-not-in-eligible-list", q, map[string]interface{}{"member": pk, "group": ka})
			}
		}
		c.Outcome(fmt.Sprintf("c:%s/%s:%s:%d|%s", t.lay.name, variant, shardName(q.shard), q.epoch, ka))
		_ = stale
	}
	// non-trivial: the cache was filled and afterwards an epoch was prepared a second time
	// (the case in which a surviving cache entry could be stale)
	s := strings.Join(seq, " ")
	if i := strings.Index(s, "Q"); i >= 0 {
		rest := s[i:]
		before := s[:i]
		for _, p := range []string{"P1", "P2"} {
			if strings.Contains(before, p) && strings.Contains(rest, p) {
				c.Nontrivial("c:reprepare-after-fill:" + t.lay.name + "/" + variant + ":" + s)
				break
			}
		}
	}
}
