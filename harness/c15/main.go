// C15 — consensus groups are well-formed and reproducible.
//
// Decided on the real sharding.NewIndexHashedNodesCoordinator (+ the WithRater wrapper with a
// stub ChanceComputer) through ComputeConsensusGroup / GetConsensusValidatorsPublicKeys.
//
// (a) selection core, hash-independent: the coordinator gets a STUB hasher through its
//
//	constructor. For the selection pre-image (8-byte step index ‖ "<round>-<randomness>")
//	the stub's output is the next enumerated choice of mc.Explore, so every index sequence
//	the modulo arithmetic of SelectionBasedProvider.Get can produce is run, for every
//	eligible size / group size / weight vector of the bound.
//
// (b) end to end with the real hasher: randomness × rounds × shards × epochs on two
//
//	independently built coordinators with a production-size LRU group cache and one with a
//	size-1 cache (every entry evicted by the next query), repeated calls, before and after
//	an epoch change.
//
// Oracle (only what the statement says): no error for inputs known to the coordinator;
// len(group) == configured size; members pairwise distinct by public key; every member in
// the eligible list of that shard and epoch; group[0] is what GetConsensusValidatorsPublicKeys
// reports first; identical groups across cache settings, repeated calls and coordinators.
package main

import (
	"encoding/binary"
	"fmt"
	"math"
	"os"
	"runtime"
	"runtime/debug"
	"runtime/pprof"
	"sort"
	"strings"
	"sync"
	"time"

	logger "github.com/ElrondNetwork/elrond-go-logger"
	"github.com/ElrondNetwork/elrond-go/hashing"
	"github.com/ElrondNetwork/elrond-go/hashing/blake2b"
	"github.com/ElrondNetwork/elrond-go/hashing/sha256"
	"github.com/ElrondNetwork/elrond-go/sharding"
	shmock "github.com/ElrondNetwork/elrond-go/sharding/mock"
	"github.com/ElrondNetwork/elrond-go/storage/lrucache"
	"verif/engine/mc"
)

func main() {
	mc.Main("C15", "exploration", func(c *mc.Ctx) {
		_ = logger.SetLogLevel("*:NONE")
		if pf := os.Getenv("C15_PROF"); pf != "" {
			f, _ := os.Create(pf)
			pprof.StartCPUProfile(f)
			defer pprof.StopCPUProfile()
		}
		maxExtra := c.Pick(2, 3)
		wAlpha := []int{1, 3}
		if !c.Quick() {
			wAlpha = []int{1, 2, 3}
		}
		nRand := c.Pick(64, 1024)
		seqDepth := c.Pick(5, 7)
		c.Rule = fmt.Sprintf("(a) real coordinator with stub hasher: group size g in 1..4 x eligible size n in [g,g+%d] x weight vectors over %v^n "+
			"(WithRater + stub ChanceComputer; the all-ones vector also on the plain coordinator) x target {shard 0, metachain} x every index sequence "+
			"(one free choice in [0, L-removed) per selection step, even choices returned as-is, odd ones plus a huge multiple of the modulus; "+
			"GetConsensusValidatorsPublicKeys additionally called for n <= g+2); "+
			"(b) real blake2b%s hasher: 2 layouts x {plain, WithRater} x %d randomness values x rounds {0,1,2^63} x shards {0,1,meta} x epochs {0,1}, "+
			"coordinators A (LRU 25000), A' (independent, LRU 25000), B (LRU size 1), each input queried repeatedly, epoch 0 also before the epoch change. "+
			"(c) every sequence of <= %d operations from {Prepare(1,seed a), Prepare(1,seed b), Action(1), Prepare(2), Action(2), query-all} applied in lockstep to a coordinator with a real LRU group cache and to one whose cache never hits, 2 layouts x {plain, WithRater}: after each sequence every (3 randomness values x shard x configured epoch) query gives a well-formed group drawn from the eligible list the coordinator reports for that epoch, identical on both coordinators. "+
			"non-trivial = (a) (g,n,weights) with an index sequence where a reduced index lands at/after an already removed range (adjustIndex skips >=1 entry); "+
			"(b) (layout,variant,shard,epoch) cells with >=2 distinct groups; (c) sequences that fill the cache and afterwards prepare an already prepared epoch again",
			maxExtra, wAlpha, map[bool]string{true: "", false: " and sha256"}[c.Quick()], nRand, seqDepth)
		c.Bound = fmt.Sprintf("g<=4, n<=g+%d, weights %v, expanded list <= %d; %d randomness values; operation sequences of depth <= %d", maxExtra, wAlpha, (4+maxExtra)*wAlpha[len(wAlpha)-1], nRand, seqDepth)
		c.Assumptions = []string{
			"(a) treats the hasher as an arbitrary function of the selection pre-image (memoised per execution, so repeated calls see the same function); the cache is the repo's no-op cache mock there",
			"'known to the nodes coordinator' = epoch with a stored configuration and shard < nbShards or metachain; other inputs only have to fail on every coordinator alike (counted, not judged)",
			"weights allowed by the chance computer = {1,2,3} (stub: chance == rating for 1..3, else 1)",
			"(b) covers randomness only through the listed values; all index sequences are covered by (a)",
		}
		// The loops below allocate many tiny objects while the live heap is a few MB: without a
		// ballast the collector (and the scavenger's madvise) would run continuously. The
		// ballast is pointer-free and never touched.
		ballast := make([]byte, 64<<20)
		debug.SetGCPercent(100)
		t0 := time.Now()
		runCore(c, maxExtra, wAlpha)
		t1 := time.Now()
		runEndToEnd(c, nRand)
		t2 := time.Now()
		runSequences(c, seqDepth)
		fmt.Fprintf(os.Stderr, "c15: core %.1fs, end-to-end %.1fs, sequences %.1fs\n", t1.Sub(t0).Seconds(), t2.Sub(t1).Seconds(), time.Since(t2).Seconds())
		runtime.KeepAlive(ballast)
	})
}

// ---------------------------------------------------------------------------------------
// (a) selection core with the stub hasher

type stubHasher struct {
	real   hashing.Hasher
	ch     *mc.Chooser
	suffix string            // "<round>-<randomness>" of the query under enumeration
	memo   map[string][]byte // pre-image -> output within one execution
	// reslicing reference: only used to know how many residues the next step can produce
	weights []int
	rem     []int
	mods    []int // modulus offered per fresh step
	picks   []int // choice taken per fresh step
	refSel  []int // validator index the reference removed per fresh step
	bad     string
}

func (h *stubHasher) Size() int            { return 32 }
func (h *stubHasher) IsInterfaceNil() bool { return h == nil }

func (h *stubHasher) reset(ch *mc.Chooser) {
	h.ch = ch
	h.memo = map[string][]byte{}
	h.rem = h.rem[:0]
	for i, w := range h.weights {
		for j := 0; j < w; j++ {
			h.rem = append(h.rem, i)
		}
	}
	h.mods, h.picks, h.refSel, h.bad = h.mods[:0], h.picks[:0], h.refSel[:0], ""
}

func (h *stubHasher) Compute(s string) []byte {
	if h.ch == nil || len(s) < 8 || s[8:] != h.suffix {
		return h.real.Compute(s)
	}
	if out, ok := h.memo[s]; ok {
		return out
	}
	step := binary.BigEndian.Uint64([]byte(s[:8]))
	if int(step) != len(h.mods) {
		h.bad = fmt.Sprintf("selection step %d asked when %d steps were answered", step, len(h.mods))
	}
	out := make([]byte, 32)
	mod := len(h.rem)
	if mod == 0 {
		h.bad = "reference list exhausted"
		h.memo[s] = out
		return out
	}
	pick := h.ch.Choose(mod, "idx")
	v := uint64(pick)
	if pick&1 == 1 {
		v += uint64(mod) * (math.MaxUint64/uint64(mod) - 1)
	}
	binary.BigEndian.PutUint64(out, v)
	val := h.rem[pick]
	k := 0
	for _, x := range h.rem {
		if x != val {
			h.rem[k] = x
			k++
		}
	}
	h.rem = h.rem[:k]
	h.mods, h.picks, h.refSel = append(h.mods, mod), append(h.picks, pick), append(h.refSel, val)
	h.memo[s] = out
	return out
}

type coreCfg struct {
	g, n    int
	weights []int
	rater   bool
	onMeta  bool
}

func (cf coreCfg) String() string {
	return fmt.Sprintf("g=%d n=%d w=%v rater=%v meta=%v", cf.g, cf.n, cf.weights, cf.rater, cf.onMeta)
}

func coreConfigs(maxExtra int, alpha []int) []coreCfg {
	var out []coreCfg
	for g := 1; g <= 4; g++ {
		for n := g; n <= g+maxExtra; n++ {
			total := 1
			for i := 0; i < n; i++ {
				total *= len(alpha)
			}
			for code := 0; code < total; code++ {
				w := make([]int, n)
				x, ones := code, true
				for i := 0; i < n; i++ {
					w[i] = alpha[x%len(alpha)]
					x /= len(alpha)
					ones = ones && w[i] == 1
				}
				for _, onMeta := range []bool{false, true} {
					out = append(out, coreCfg{g, n, w, true, onMeta})
					if ones {
						out = append(out, coreCfg{g, n, w, false, onMeta})
					}
				}
			}
		}
	}
	// simplest first (smallest witnesses first)
	sort.SliceStable(out, func(i, j int) bool { return cost(out[i]) < cost(out[j]) })
	return out
}

func cost(cf coreCfg) int {
	s := 0
	for _, w := range cf.weights {
		s += w
	}
	return cf.n*100 + s
}

func runCore(c *mc.Ctx, maxExtra int, alpha []int) {
	cfgs := coreConfigs(maxExtra, alpha)
	c.Set("core_configs", len(cfgs))
	var mu sync.Mutex
	outcomes := map[string]struct{}{}
	mc.Par(len(cfgs), func(i int) {
		if c.Expired() {
			c.Cap("deadline before all core configurations")
			return
		}
		local := coreOne(c, cfgs[i])
		mu.Lock()
		for k := range local {
			outcomes[k] = struct{}{}
		}
		mu.Unlock()
	})
	for k := range outcomes {
		c.Outcome(k)
	}
}

// coreOne enumerates every index sequence of one configuration; returns its distinct outcomes.
func coreOne(c *mc.Ctx, cf coreCfg) map[string]struct{} {
	h := &stubHasher{real: sha256.NewSha256(), weights: cf.weights}
	const round = uint64(7)
	randomness := []byte("core-randomness")
	h.suffix = fmt.Sprintf("%d-%s", round, randomness)

	mk := func(prefix string, n int, ws []int) []vspec {
		l := make([]vspec, n)
		for i := range l {
			l[i] = vspec{pk: fmt.Sprintf("%s%02d", prefix, i), chance: 1}
			if ws != nil {
				l[i].chance = uint32(ws[i])
			}
		}
		return l
	}
	w := &wiring{shardG: 1, metaG: 1, nbShards: 1, hasher: h, cache: &shmock.NodesCoordinatorCacheMock{}, rater: cf.rater,
		minShard: 1, minMeta: 1, cross: true,
		eligible: map[uint32][]vspec{0: mk("s", 2, nil), meta: mk("m", 2, nil)},
		waiting:  map[uint32][]vspec{0: nil, meta: nil}}
	target := uint32(0)
	if cf.onMeta {
		target = meta
		w.metaG = cf.g
		w.eligible[meta] = mk("m", cf.n, cf.weights)
	} else {
		w.shardG = cf.g
		w.eligible[0] = mk("s", cf.n, cf.weights)
	}
	nc, err := w.build()
	if err != nil {
		c.Fatal("core: cannot build coordinator for %v: %v", cf, err)
	}
	el, err := nc.GetAllEligibleValidatorsPublicKeys(0)
	if err != nil {
		c.Fatal("core: %v", err)
	}
	pos := map[string]int{}
	for i, k := range el[target] {
		pos[string(k)] = i
		if string(k) != w.eligible[target][i].pk {
			c.Fatal("core: coordinator reordered the eligible list of %v", cf)
		}
	}
	if len(pos) != cf.n {
		c.Fatal("core: eligible list of %v has %d distinct keys", cf, len(pos))
	}
	totalW := 0
	for _, x := range cf.weights {
		totalW += x
	}
	outcomes := map[string]struct{}{}
	nontrivial := false
	// written-out cases come from three fixed configurations only (deterministic evidence)
	sampleHere := cf.g == 3 && cf.n == 4 && cf.rater && fmt.Sprint(cf.weights) == "[3 1 3 1]"
	samples := 0
	// GetConsensusValidatorsPublicKeys (a second, memoised selection) is also called for n <= g+2
	withKeys := cf.n <= cf.g+2
	viol := func(sig string, d map[string]interface{}) {
		d["config"] = cf.String()
		d["index_choices"] = append([]int{}, h.picks...)
		d["moduli"] = append([]int{}, h.mods...)
		c.ViolationR("core:"+sig, cost(cf), d, nil)
	}
	mc.Explore(c, -1, 1, func(ch *mc.Chooser) {
		h.reset(ch)
		var grp []sharding.Validator
		var pks []string
		var e1, e2 error
		if p := mc.Try(func() {
			grp, e1 = nc.ComputeConsensusGroup(randomness, round, target, 0)
			if withKeys {
				pks, e2 = nc.GetConsensusValidatorsPublicKeys(randomness, round, target, 0)
			}
		}); p != "" {
			viol("panic", map[string]interface{}{"panic": p})
			return
		}
		if e1 != nil || e2 != nil {
			viol("error-for-known-inputs", map[string]interface{}{"err": fmt.Sprint(e1, " / ", e2)})
			return
		}
		idx := make([]int, len(grp))
		ok := true
		seen := map[int]bool{}
		for i, v := range grp {
			p, in := pos[string(v.PubKey())]
			if !in {
				viol("member-not-in-eligible-list", map[string]interface{}{"member": string(v.PubKey())})
				ok = false
				p = -1
			} else if seen[p] {
				viol("duplicate-member", map[string]interface{}{"member_index": p, "position": i})
				ok = false
			}
			seen[p] = true
			idx[i] = p
		}
		if len(grp) != cf.g {
			viol("wrong-size", map[string]interface{}{"got": len(grp), "want": cf.g, "group": idx})
			ok = false
		}
		if !withKeys {
			// leader / repeated-call checks are made for n <= g+2 and in part (b)
		} else if len(pks) != len(grp) || (len(grp) > 0 && pks[0] != string(grp[0].PubKey())) {
			viol("leader-not-first-public-key", map[string]interface{}{"group": idx, "public_keys": pks})
			ok = false
		} else {
			for i := range pks {
				if pks[i] != string(grp[i].PubKey()) {
					viol("repeated-call-differs", map[string]interface{}{"group": idx, "public_keys": pks})
					ok = false
					break
				}
			}
		}
		if h.bad != "" {
			c.Cap("stub hasher protocol: " + h.bad)
		}
		if ok {
			// did the enumeration offer exactly the residues the implementation could use?
			removed := 0
			for i := range grp {
				if i < len(h.mods) && h.mods[i] != totalW-removed {
					c.Count("core_modulus_differs_from_reslicing_reference", 1)
					c.Cap("selection differs from the reslicing reference: index sequences possibly not all enumerated")
					break
				}
				removed += cf.weights[idx[i]]
			}
			for i := range grp {
				if i < len(h.refSel) && h.refSel[i] != idx[i] {
					c.Count("core_group_differs_from_reslicing_reference(info)", 1)
					break
				}
			}
		}
		// non-trivial: at some step the reduced index is at/after a removed range
		if !nontrivial {
			removedBelow := func(step int) bool {
				// absolute position of pick in the full expanded list vs reduced pick
				rem := []int{}
				gone := map[int]bool{}
				for j := 0; j < step; j++ {
					gone[h.refSel[j]] = true
				}
				abs := 0
				for vi, wt := range cf.weights {
					for k := 0; k < wt; k++ {
						if !gone[vi] {
							rem = append(rem, abs)
						}
						abs++
					}
				}
				return rem[h.picks[step]] != h.picks[step]
			}
			for s := 1; s < len(h.picks); s++ {
				if removedBelow(s) {
					nontrivial = true
					break
				}
			}
		}
		outcomes[fmt.Sprintf("a:%d:%d:%v", cf.g, cf.n, idx)] = struct{}{}
		if sampleHere && samples < 2 && nontrivial {
			samples++
			c.Sample(map[string]interface{}{"part": "a", "config": cf.String(), "index_choices": append([]int{}, h.picks...), "group": idx})
		}
	})
	if nontrivial {
		c.Nontrivial("a:" + cf.String())
	}
	c.Count("core_configs_done", 1)
	return outcomes
}

// ---------------------------------------------------------------------------------------
// (b) end to end with the real hasher

type layout struct {
	name          string
	shardG, metaG int
	elig          map[uint32]int
	wait          map[uint32]int
}

var layouts = []layout{
	{"g3/4:E3,5,6:W1,1,1", 3, 4, map[uint32]int{0: 3, 1: 5, meta: 6}, map[uint32]int{0: 1, 1: 1, meta: 1}},
	{"g1/2:E2,3,4:W0,2,1", 1, 2, map[uint32]int{0: 2, 1: 3, meta: 4}, map[uint32]int{0: 0, 1: 2, meta: 1}},
}

type e2eTask struct {
	lay    layout
	rater  bool
	hname  string
	hasher hashing.Hasher
}

func randomnessValues(n int) [][]byte {
	special := []string{"0", "-", "_", "1-1", "a_1", "a_1_0", "0-0_0_0", "\x00", "\x00\x00\x00\x00\x00\x00\x00\x00"}
	var out [][]byte
	for _, s := range special {
		out = append(out, []byte(s))
	}
	lens := []int{32, 1, 8, 96}
	for i := 0; len(out) < n; i++ {
		seed := sha256.NewSha256().Compute(fmt.Sprintf("c15-randomness-%d", i))
		l := lens[i%len(lens)]
		b := []byte{}
		for len(b) < l {
			b = append(b, seed...)
		}
		out = append(out, b[:l])
	}
	return out[:n]
}

func runEndToEnd(c *mc.Ctx, nRand int) {
	var tasks []e2eTask
	hs := []struct {
		n string
		h hashing.Hasher
	}{{"blake2b", blake2b.NewBlake2b()}}
	if !c.Quick() {
		hs = append(hs, struct {
			n string
			h hashing.Hasher
		}{"sha256", sha256.NewSha256()})
	}
	for _, l := range layouts {
		for _, r := range []bool{false, true} {
			for _, h := range hs {
				tasks = append(tasks, e2eTask{l, r, h.n, h.h})
			}
		}
	}
	rands := randomnessValues(nRand)
	mc.Par(len(tasks), func(i int) { e2eOne(c, tasks[i], rands) })
}

type query struct {
	r     int
	round uint64
	shard uint32
	epoch uint32
}

var layoutsHasher hashing.Hasher = blake2b.NewBlake2b()

func (t e2eTask) build(c *mc.Ctx, cacheSize int) coord {
	cache, err := lrucache.NewCache(cacheSize)
	if err != nil {
		c.Fatal("lru: %v", err)
	}
	return t.buildWith(c, cache)
}

func (t e2eTask) buildWith(c *mc.Ctx, cache sharding.Cacher) coord {
	mk := func(s uint32, kind string, n int) []vspec {
		l := make([]vspec, n)
		for i := range l {
			l[i] = vspec{pk: fmt.Sprintf("%s-%s-%02d", kind, shardName(s), i), chance: uint32(1 + (i+int(s%3))%3)}
		}
		return l
	}
	w := &wiring{shardG: t.lay.shardG, metaG: t.lay.metaG, nbShards: 2, hasher: t.hasher, cache: cache, rater: t.rater,
		minShard: uint32(t.lay.shardG), minMeta: uint32(t.lay.metaG), cross: true,
		eligible: map[uint32][]vspec{}, waiting: map[uint32][]vspec{}}
	for s, n := range t.lay.elig {
		w.eligible[s] = mk(s, "e", n)
		w.waiting[s] = mk(s, "w", t.lay.wait[s])
	}
	nc, err := w.build()
	if err != nil {
		c.Fatal("e2e: cannot build coordinator: %v", err)
	}
	return nc
}

// toEpoch1 performs the epoch change 0 -> 1 with a body derived from the current lists
// (everybody stays; ratings chosen so that epoch-1 weights differ from epoch-0 weights).
func toEpoch1(c *mc.Ctx, nc coord) {
	l, err := readLists(nc, 0)
	if err != nil {
		c.Fatal("e2e: %v", err)
	}
	var recs []rec
	for _, s := range l.shards {
		for i, k := range l.eligible[s] {
			recs = append(recs, rec{PK: k, Shard: s, List: "eligible", Index: uint32(i), Rating: uint32(1 + (i+1)%3)})
		}
		for i, k := range l.waiting[s] {
			recs = append(recs, rec{PK: k, Shard: s, List: "waiting", Index: uint32(i), Rating: uint32(1 + i%3)})
		}
	}
	hdr, body := epochStartInputs(1, []byte("prev-rand-seed-of-epoch-1"), recs)
	nc.EpochStartPrepare(hdr, body)
	nc.EpochStartAction(hdr)
	if _, err := nc.GetAllEligibleValidatorsPublicKeys(1); err != nil {
		c.Fatal("e2e: epoch change did not produce epoch 1: %v", err)
	}
}

func groupKey(g []sharding.Validator) string {
	ks := make([]string, len(g))
	for i, v := range g {
		ks[i] = string(v.PubKey())
	}
	return strings.Join(ks, ",")
}

func e2eOne(c *mc.Ctx, t e2eTask, rands [][]byte) {
	variant := map[bool]string{false: "plain", true: "rater"}[t.rater]
	tag := fmt.Sprintf("%s/%s/%s", t.lay.name, variant, t.hname)
	a, a2, b := t.build(c, 25000), t.build(c, 25000), t.build(c, 1)
	rounds := []uint64{0, 1, 1 << 63}
	shards := []uint32{0, 1, meta}

	viol := func(sig string, q query, d map[string]interface{}) {
		d["setup"] = tag
		d["randomness_hex"] = mc.Hex(rands[q.r])
		d["round"] = q.round
		d["shard"] = shardName(q.shard)
		d["epoch"] = q.epoch
		c.ViolationR("e2e:"+sig, q.r, d, nil)
	}
	compute := func(nc coord, q query) (string, []sharding.Validator, bool) {
		var g []sharding.Validator
		var err error
		if p := mc.Try(func() { g, err = nc.ComputeConsensusGroup(rands[q.r], q.round, q.shard, q.epoch) }); p != "" {
			viol("panic", q, map[string]interface{}{"panic": p})
			return "", nil, false
		}
		if err != nil {
			viol("error-for-known-inputs", q, map[string]interface{}{"err": err.Error()})
			return "", nil, false
		}
		return groupKey(g), g, true
	}
	same := func(what string, q query, want, got string) {
		if want != got {
			viol("group-differs:"+what, q, map[string]interface{}{"first": want, "other": got})
		}
	}

	// phase 0: epoch-0 groups before the epoch change (coordinator A)
	before := map[query]string{}
	for r := range rands {
		for _, rd := range rounds {
			for _, s := range shards {
				q := query{r, rd, s, 0}
				if k, _, ok := compute(a, q); ok {
					before[q] = k
				}
				c.Eval(1)
			}
		}
	}
	for _, nc := range []coord{a, a2, b} {
		toEpoch1(c, nc)
	}
	elig := map[uint32]map[uint32]map[string]bool{}
	for ep := uint32(0); ep <= 1; ep++ {
		l, err := readLists(a, ep)
		if err != nil {
			c.Fatal("e2e: %v", err)
		}
		elig[ep] = map[uint32]map[string]bool{}
		for _, s := range shards {
			elig[ep][s] = map[string]bool{}
			for _, k := range l.eligible[s] {
				elig[ep][s][k] = true
			}
		}
	}
	size := func(s uint32) int {
		if s == meta {
			return t.lay.metaG
		}
		return t.lay.shardG
	}

	var qs []query
	for r := range rands {
		for _, rd := range rounds {
			for _, s := range shards {
				for ep := uint32(0); ep <= 1; ep++ {
					qs = append(qs, query{r, rd, s, ep})
				}
			}
		}
	}
	first := map[query]string{}
	distinct := map[string]map[string]struct{}{}
	for _, q := range qs {
		c.Eval(1)
		k, g, ok := compute(a, q)
		if !ok {
			continue
		}
		first[q] = k
		// well-formedness
		if len(g) != size(q.shard) {
			viol("wrong-size", q, map[string]interface{}{"got": len(g), "want": size(q.shard), "group": k})
		}
		seen := map[string]bool{}
		for _, v := range g {
			pk := string(v.PubKey())
			if seen[pk] {
				viol("duplicate-member", q, map[string]interface{}{"member": pk, "group": k})
			}
			seen[pk] = true
			if !elig[q.epoch][q.shard][pk] {
				viol("member-not-in-eligible-list", q, map[string]interface{}{"member": pk, "group": k})
			}
		}
		var pks []string
		var err error
		if p := mc.Try(func() { pks, err = a.GetConsensusValidatorsPublicKeys(rands[q.r], q.round, q.shard, q.epoch) }); p != "" || err != nil {
			viol("error-for-known-inputs", q, map[string]interface{}{"err": fmt.Sprint(p, err), "api": "GetConsensusValidatorsPublicKeys"})
		} else if len(pks) == 0 || len(g) == 0 || pks[0] != string(g[0].PubKey()) {
			viol("leader-not-first-public-key", q, map[string]interface{}{"group": k, "public_keys": pks})
		} else {
			same("public-keys-call", q, k, strings.Join(pks, ","))
		}
		if q.epoch == 0 {
			if bk, ok := before[q]; ok {
				same("before-vs-after-epoch-change", q, bk, k)
			}
		}
		if k2, _, ok := compute(a, q); ok {
			same("immediate-repeat(cache-hit)", q, k, k2)
		}
		if k2, _, ok := compute(a2, q); ok {
			same("independent-coordinator", q, k, k2)
		}
		if k2, _, ok := compute(b, q); ok {
			same("size-1-cache", q, k, k2)
		}
		if k2, _, ok := compute(b, q); ok {
			same("size-1-cache-repeat", q, k, k2)
		}
		cell := fmt.Sprintf("b:%s/%s:%s:%d", t.lay.name, variant, shardName(q.shard), q.epoch)
		if distinct[cell] == nil {
			distinct[cell] = map[string]struct{}{}
		}
		distinct[cell][k] = struct{}{}
	}
	// second pass in reverse order: A answers from its cache, B recomputes everything
	for i := len(qs) - 1; i >= 0; i-- {
		q := qs[i]
		want, ok := first[q]
		if !ok {
			continue
		}
		c.Eval(1)
		if k2, _, ok := compute(a, q); ok {
			same("second-pass(cached)", q, want, k2)
		}
		if k2, _, ok := compute(b, q); ok {
			same("second-pass(size-1-cache)", q, want, k2)
		}
	}
	// inputs not known to the coordinator: must fail everywhere alike (counted only)
	for _, q := range []query{{0, 0, 0, 2}, {0, 0, 2, 0}, {0, 0, 7, 1}} {
		_, e1 := a.ComputeConsensusGroup(rands[q.r], q.round, q.shard, q.epoch)
		_, e2 := b.ComputeConsensusGroup(rands[q.r], q.round, q.shard, q.epoch)
		if e1 != nil && e2 != nil {
			c.Count("e2e_unknown_input_rejected", 1)
		} else {
			c.Count("e2e_unknown_input_not_rejected(info)", 1)
		}
	}
	cells := make([]string, 0, len(distinct))
	for cell := range distinct {
		cells = append(cells, cell)
	}
	sort.Strings(cells)
	for _, cell := range cells {
		if len(distinct[cell]) >= 2 {
			c.Nontrivial(cell)
		}
		for k := range distinct[cell] {
			c.Outcome(cell + "|" + k)
		}
	}
	if t.rater && c.WantSample() {
		q := qs[len(qs)/2]
		c.Sample(map[string]interface{}{"part": "b", "setup": tag, "randomness_hex": mc.Hex(rands[q.r]), "round": q.round, "shard": shardName(q.shard), "epoch": q.epoch, "group": first[q]})
	}
	c.Count("e2e_setups_done", 1)
}
