// C11 — every address maps to exactly one valid shard.
//
// Exhaustive input enumeration on the real sharding.NewMultiShardCoordinator:
//
//	(A) every shard count 1..256 (core.MaxNumShards) x every address of the shape alphabet
//	    (17 lengths x 28 prefix classes) x every value of the trailing byte (the only byte the
//	    coordinator reads when numberOfShards <= 256), plus shard counts 257 and 65536 with
//	    the two trailing bytes enumerated completely and (thorough) 65537 with three;
//	(B) SameShard over all ordered pairs of one representative per (shape, trailing byte);
//	(C) CommunicationIdentifier over all ordered pairs of shard ids.
//
// Oracle = the property statement and nothing more:
//   - ComputeId(a) < numberOfShards, or == MetachainShardId only if an independently written
//     predicate "a is a metachain system-contract address" holds (len > 25, 8 leading zero
//     bytes, bytes[10:25] zero, last byte 0xff);
//   - deterministic: a second call, and a second coordinator built with another selfId, give
//     the same id; the input is not modified;
//   - SameShard(a,b) <=> ComputeId(a) == ComputeId(b);
//   - CommunicationIdentifier(self=a,dest=b) == (self=b,dest=a), and distinct unordered pairs
//     give distinct identifiers (AllShardId excluded from injectivity: it is the broadcast id
//     and collapses by design; symmetry is still checked for it).
//
// Which of the configured shards an address lands in is NOT judged (the statement does not
// fix the assignment function); the mask arithmetic is only used to count non-trivial cases.
package main

import (
	"bytes"
	"fmt"
	"math/bits"
	"sort"
	"sync"

	"github.com/ElrondNetwork/elrond-go/core"
	"github.com/ElrondNetwork/elrond-go/sharding"
	"verif/engine/mc"
)

const meta = core.MetachainShardId

var lengths = []int{0, 1, 2, 3, 8, 9, 10, 11, 12, 24, 25, 26, 27, 31, 32, 33, 64}

// prefix classes: how the bytes in front of the enumerated trailing byte(s) are filled.
type class struct {
	name string
	fill func(a []byte)
}

func set(a []byte, i int, v byte) {
	if i < len(a) {
		a[i] = v
	}
}

func fillFrom(a []byte, from int, v byte) {
	for i := from; i < len(a); i++ {
		a[i] = v
	}
}

func classes() []class {
	cs := []class{
		{"ordinary(0xab..)", func(a []byte) { fillFrom(a, 0, 0xab) }},
		{"all-ones", func(a []byte) { fillFrom(a, 0, 0xff) }},
		{"all-zero", func(a []byte) {}},
		// smart contract (8 zero bytes, 2 VM-type bytes), bytes[10:25] zero: metachain SC shape
		{"sc-meta(vm=0001)", func(a []byte) { set(a, 9, 1); fillFrom(a, 25, 0xab) }},
		{"sc-meta(vm=ffff)", func(a []byte) { set(a, 8, 0xff); set(a, 9, 0xff); fillFrom(a, 25, 0xab) }},
	}
	// SC whose bytes[10:25] are not all zero: ordinary shard SC
	for k := 10; k < 25; k++ {
		k := k
		cs = append(cs, class{fmt.Sprintf("sc-shard(byte%d=1)", k), func(a []byte) { set(a, 9, 1); set(a, k, 1); fillFrom(a, 25, 0xab) }})
	}
	// not an SC: one of the 8 leading bytes non-zero, bytes[10:25] zero
	for k := 0; k < 8; k++ {
		k := k
		cs = append(cs, class{fmt.Sprintf("non-sc(byte%d=1)", k), func(a []byte) { set(a, k, 1); set(a, 9, 1); fillFrom(a, 25, 0xab) }})
	}
	return cs
}

// refMetaSC is the independent reading of "metachain system-contract address".
func refMetaSC(a []byte) bool {
	if len(a) <= 25 {
		return false
	}
	for i := 0; i < 8; i++ {
		if a[i] != 0 {
			return false
		}
	}
	for i := 10; i < 25; i++ {
		if a[i] != 0 {
			return false
		}
	}
	return a[len(a)-1] == 0xff
}

// ---- smallest-witness collector (enumeration runs in parallel) ----
type witness struct {
	rank   string
	detail map[string]interface{}
	count  int64
}

type collector struct {
	mu sync.Mutex
	m  map[string]*witness
}

func (k *collector) add(sig, rank string, detail func() map[string]interface{}) {
	k.mu.Lock()
	defer k.mu.Unlock()
	w := k.m[sig]
	if w == nil {
		k.m[sig] = &witness{rank: rank, detail: detail(), count: 1}
		return
	}
	w.count++
	if rank < w.rank {
		w.rank, w.detail = rank, detail()
	}
}

func (k *collector) flush(c *mc.Ctx) {
	sigs := []string{}
	for s := range k.m {
		sigs = append(sigs, s)
	}
	sort.Strings(sigs)
	for _, s := range sigs {
		w := k.m[s]
		w.detail["occurrences"] = w.count
		c.Violation(s, w.detail, w.detail)
		for i := int64(1); i < w.count && i < 100000; i++ {
			c.Violation(s, nil, nil)
		}
	}
}

func shardName(id uint32) string {
	if id == meta {
		return "META"
	}
	return fmt.Sprint(id)
}

type env struct {
	c   *mc.Ctx
	col *collector
	cls []class
}

// checkAddr evaluates the single-address oracles; returns the id (and false when it panicked).
func (e *env) checkAddr(n uint32, co, co2 sharding.Coordinator, a []byte, shape string, tail int) (uint32, bool) {
	var id, id2, id3 uint32
	before := append([]byte(nil), a...)
	if p := mc.Try(func() { id = co.ComputeId(a); id2 = co.ComputeId(a); id3 = co2.ComputeId(a) }); p != "" {
		e.col.add("ComputeId:panic", rank(n, len(a), shape, tail), func() map[string]interface{} {
			return map[string]interface{}{"numShards": n, "address": mc.Hex(before), "shape": shape, "panic": p}
		})
		return 0, false
	}
	det := func(extra string, v interface{}) func() map[string]interface{} {
		return func() map[string]interface{} {
			m := map[string]interface{}{"numShards": n, "address": mc.Hex(before), "len": len(before), "shape": shape, "computed": shardName(id)}
			if extra != "" {
				m[extra] = v
			}
			return m
		}
	}
	if id == meta {
		if !refMetaSC(before) {
			e.col.add("ComputeId:metachain-for-non-metachain-SC-address", rank(n, len(a), shape, tail), det("", nil))
		}
	} else if id >= n {
		e.col.add("ComputeId:shard-not-configured", rank(n, len(a), shape, tail), det("", nil))
	}
	if id2 != id {
		e.col.add("ComputeId:second-call-differs", rank(n, len(a), shape, tail), det("second", shardName(id2)))
	}
	if id3 != id {
		e.col.add("ComputeId:depends-on-selfId", rank(n, len(a), shape, tail), det("other_coordinator", shardName(id3)))
	}
	if !bytes.Equal(before, a) {
		e.col.add("ComputeId:modifies-input", rank(n, len(a), shape, tail), det("after", mc.Hex(a)))
	}
	return id, true
}

func rank(n uint32, l int, shape string, tail int) string {
	return fmt.Sprintf("%08d/%03d/%08d/%s", n, l, tail, shape)
}

func newCoords(e *env, n uint32) (sharding.Coordinator, sharding.Coordinator, bool) {
	co, err := sharding.NewMultiShardCoordinator(n, 0)
	co2, err2 := sharding.NewMultiShardCoordinator(n, meta)
	if err != nil || err2 != nil {
		e.col.add("NewMultiShardCoordinator:rejects-valid-configuration", rank(n, 0, "", 0), func() map[string]interface{} {
			return map[string]interface{}{"numShards": n, "err": fmt.Sprint(err, err2)}
		})
		return nil, nil, false
	}
	return co, co2, true
}

// partA1: one trailing byte exhaustively (numberOfShards <= 256).
func (e *env) partA1(n uint32) {
	co, co2, ok := newCoords(e, n)
	if !ok {
		return
	}
	k := uint(bits.Len32(n - 1)) // smallest k with 2^k >= n (independent of the float code under test)
	seen := map[uint32]bool{}
	var evals int64
	for b := 0; b < 256; b++ {
		if uint32(b)&(1<<k-1) >= n {
			e.c.Nontrivial(fmt.Sprint("fallback", n, b))
		}
		for _, l := range lengths {
			for ci := range e.cls {
				a := make([]byte, l)
				e.cls[ci].fill(a)
				if l > 0 {
					a[l-1] = byte(b)
				} else if b > 0 {
					continue // the empty address has no trailing byte
				}
				evals++
				id, ok := e.checkAddr(n, co, co2, a, e.cls[ci].name, b)
				if ok && !seen[id] {
					seen[id] = true
				}
			}
		}
	}
	e.c.Eval(evals)
	e.c.Count("partA_addresses", evals)
	for id := range seen {
		e.c.Outcome("shard " + shardName(id))
	}
	if seen[meta] {
		e.c.Count("shard_counts_where_META_observed", 1)
	}
	if int(n) == len(seen)-btoi(seen[meta]) {
		e.c.Count("shard_counts_where_every_shard_reached", 1)
	}
}

func btoi(b bool) int {
	if b {
		return 1
	}
	return 0
}

// partAwide: numberOfShards > 256: nb trailing bytes exhaustively (big-endian counter `tail`).
func (e *env) partAwide(n uint32, nb int, lens []int, cls []class) {
	co, co2, ok := newCoords(e, n)
	if !ok {
		return
	}
	k := uint(bits.Len32(n - 1))
	total := 1 << uint(8*nb)
	chunks := 256
	per := total / chunks
	mc.Par(chunks, func(ch int) {
		var evals int64
		for tail := ch * per; tail < (ch+1)*per; tail++ {
			if uint32(tail)&(1<<k-1) >= n && tail < 1<<16 {
				if tail%251 == 0 { // keep the key set small; the rule is the same
					e.c.Nontrivial(fmt.Sprint("fallback", n, tail))
				}
			}
			for _, l := range lens {
				if l < nb && tail>>(uint(8*l)) != 0 {
					continue // shorter than the enumerated tail: only tails that fit
				}
				for ci := range cls {
					a := make([]byte, l)
					cls[ci].fill(a)
					for j := 0; j < nb && j < l; j++ {
						a[l-1-j] = byte(tail >> uint(8*j))
					}
					evals++
					e.checkAddr(n, co, co2, a, cls[ci].name, tail)
				}
			}
		}
		e.c.Eval(evals)
		e.c.Count(fmt.Sprintf("partA_addresses_numShards_%d", n), evals)
	})
}

// partB: SameShard over all ordered pairs of representatives.
func (e *env) partB(n uint32, lens []int, cls []class) {
	co, _, ok := newCoords(e, n)
	if !ok {
		return
	}
	type rep struct {
		a     []byte
		id    uint32
		shape string
	}
	var reps []rep
	for _, l := range lens {
		for ci := range cls {
			for b := 0; b < 256; b++ {
				if l == 0 && b > 0 {
					break
				}
				a := make([]byte, l)
				cls[ci].fill(a)
				if l > 0 {
					a[l-1] = byte(b)
				}
				var id uint32
				if p := mc.Try(func() { id = co.ComputeId(a) }); p != "" {
					continue // reported by part A
				}
				reps = append(reps, rep{a, id, cls[ci].name})
			}
		}
	}
	var evals int64
	for i := range reps {
		x := &reps[i]
		for j := range reps {
			y := &reps[j]
			got := co.SameShard(x.a, y.a)
			want := x.id == y.id
			if got != want {
				sig := "SameShard:true-for-different-shards"
				if want {
					sig = "SameShard:false-for-equal-shards"
				}
				e.col.add(sig, fmt.Sprintf("%08d/%08d/%08d", n, i, j), func() map[string]interface{} {
					return map[string]interface{}{"numShards": n, "a": mc.Hex(x.a), "b": mc.Hex(y.a), "shard_a": shardName(x.id), "shard_b": shardName(y.id), "SameShard": got}
				})
			}
		}
		evals += int64(len(reps))
	}
	e.c.Eval(evals)
	e.c.Count("partB_SameShard_pairs", evals)
	if n == 1 {
		e.c.Set("partB_representatives_per_shard_count", len(reps))
	}
}

// partC: communication identifiers.
func (e *env) partC(maxDirect int) {
	// (C1) through the coordinator: for every shard count every (self,dest) from 0..n-1,META,ALL
	mc.Par(int(core.MaxNumShards), func(i int) {
		n := uint32(i + 1)
		ids := []uint32{}
		for s := uint32(0); s < n; s++ {
			ids = append(ids, s)
		}
		ids = append(ids, meta)
		cos := map[uint32]sharding.Coordinator{}
		for _, s := range ids {
			co, err := sharding.NewMultiShardCoordinator(n, s)
			if err != nil {
				e.col.add("NewMultiShardCoordinator:rejects-valid-configuration", rank(n, 0, "", int(s)), func() map[string]interface{} {
					return map[string]interface{}{"numShards": n, "selfId": shardName(s), "err": err.Error()}
				})
				return
			}
			cos[s] = co
		}
		inj := map[string][2]uint32{}
		var evals int64
		for _, a := range ids {
			for _, b := range ids {
				ab := cos[a].CommunicationIdentifier(b)
				ba := cos[b].CommunicationIdentifier(a)
				evals++
				if ab != ba {
					e.col.add("CommunicationIdentifier:direction-dependent", fmt.Sprintf("%08d/%010d/%010d", n, a, b), func() map[string]interface{} {
						return map[string]interface{}{"numShards": n, "a": shardName(a), "b": shardName(b), "a_to_b": ab, "b_to_a": ba}
					})
				}
				lo, hi := a, b
				if lo > hi {
					lo, hi = hi, lo
				}
				if prev, ok := inj[ab]; ok && prev != [2]uint32{lo, hi} {
					e.col.add("CommunicationIdentifier:two-pairs-same-identifier", fmt.Sprintf("%08d/%010d/%010d", n, a, b), func() map[string]interface{} {
						return map[string]interface{}{"numShards": n, "pair1": []string{shardName(prev[0]), shardName(prev[1])}, "pair2": []string{shardName(lo), shardName(hi)}, "identifier": ab}
					})
				} else {
					inj[ab] = [2]uint32{lo, hi}
				}
			}
			// broadcast id: symmetric (both directions give the same text)
			all1 := cos[a].CommunicationIdentifier(core.AllShardId)
			all2 := core.CommunicationIdentifierBetweenShards(core.AllShardId, a)
			evals++
			if all1 != all2 {
				e.col.add("CommunicationIdentifier:direction-dependent", fmt.Sprintf("%08d/%010d/ALL", n, a), func() map[string]interface{} {
					return map[string]interface{}{"numShards": n, "a": shardName(a), "b": "ALL", "a_to_b": all1, "b_to_a": all2}
				})
			}
		}
		if n == core.MaxNumShards {
			e.c.Set("partC_distinct_identifiers_at_256_shards", len(inj))
			e.c.Outcome(fmt.Sprint("identifiers ", len(inj)))
		}
		e.c.Eval(evals)
		e.c.Count("partC_coordinator_pairs", evals)
	})
	// (C2) the underlying core function directly on ids 0..maxDirect-1 and META (decimal
	// width boundaries 9|10, 99|100, 999|1000 are where a separator-less naming would collide)
	ids := []uint32{}
	for s := 0; s < maxDirect; s++ {
		ids = append(ids, uint32(s))
	}
	ids = append(ids, meta)
	type ent struct {
		id   string
		pair [2]uint32
	}
	rows := make([][]ent, len(ids))
	mc.Par(len(ids), func(i int) {
		a := ids[i]
		row := make([]ent, 0, len(ids)-i)
		for _, b := range ids[i:] {
			ab := core.CommunicationIdentifierBetweenShards(a, b)
			ba := core.CommunicationIdentifierBetweenShards(b, a)
			if ab != ba {
				e.col.add("CommunicationIdentifier:direction-dependent", fmt.Sprintf("direct/%010d/%010d", a, b), func() map[string]interface{} {
					return map[string]interface{}{"a": shardName(a), "b": shardName(b), "a_to_b": ab, "b_to_a": ba, "via": "core.CommunicationIdentifierBetweenShards"}
				})
			}
			row = append(row, ent{ab, [2]uint32{a, b}})
		}
		rows[i] = row
		e.c.Eval(int64(len(row)))
		e.c.Count("partC_direct_pairs", int64(len(row)))
	})
	inj := make(map[string][2]uint32, len(ids)*len(ids)/2)
	for _, row := range rows {
		for _, en := range row {
			if prev, ok := inj[en.id]; ok {
				en := en
				e.col.add("CommunicationIdentifier:two-pairs-same-identifier", fmt.Sprintf("direct/%010d/%010d", en.pair[0], en.pair[1]), func() map[string]interface{} {
					return map[string]interface{}{"pair1": []string{shardName(prev[0]), shardName(prev[1])}, "pair2": []string{shardName(en.pair[0]), shardName(en.pair[1])}, "identifier": en.id, "via": "core.CommunicationIdentifierBetweenShards"}
				})
				continue
			}
			inj[en.id] = en.pair
		}
	}
}

func pickClasses(cls []class, names ...string) []class {
	var out []class
	for _, n := range names {
		for _, c := range cls {
			if c.name == n {
				out = append(out, c)
			}
		}
	}
	return out
}

func main() {
	mc.Main("C11", "exploration", func(c *mc.Ctx) {
		e := &env{c: c, col: &collector{m: map[string]*witness{}}, cls: classes()}
		// representatives for the SameShard pair check
		bLens := []int{0, 1, 32}
		bCls := pickClasses(e.cls, "ordinary(0xab..)", "all-zero", "sc-meta(vm=0001)", "sc-shard(byte10=1)")
		if !c.Quick() {
			bLens = []int{0, 1, 2, 10, 11, 25, 26, 32, 33}
			bCls = pickClasses(e.cls, "ordinary(0xab..)", "all-ones", "all-zero", "sc-meta(vm=0001)", "sc-shard(byte10=1)", "sc-shard(byte24=1)", "non-sc(byte7=1)")
		}
		directIds := c.Pick(300, 1100)
		c.Rule = fmt.Sprintf("(A) shard counts 1..256 (all) x address lengths %v x %d prefix classes (ordinary, all-ones, all-zero, metachain-SC shape with 2 VM types, SC with each single byte of [10:25] set, non-SC with each single byte of [0:8] set) x trailing byte 0..255 (all); shard counts 257 and 65536 with both trailing bytes 0..65535 (all)%s. "+
			"(B) for every shard count 1..256: SameShard on all ordered pairs (incl. identical) of one representative per (length in %v, %d prefix classes, trailing byte). "+
			"(C) CommunicationIdentifier for every shard count 1..256 and every ordered (self,dest) from {0..n-1, META} plus dest ALL, and core.CommunicationIdentifierBetweenShards on all pairs from {0..%d, META}. "+
			"Non-trivial = (shard count, trailing value) whose masked value with the high mask is >= shard count, i.e. the fallback to the low mask decides.",
			lengths, len(e.cls), map[bool]string{true: "", false: "; shard count 65537 with the three trailing bytes 0..16777215 (all) on 8 lengths x 4 prefix classes"}[c.Quick()],
			bLens, len(bCls), directIds-1)
		c.Bound = "complete for the stated space (shard counts 1..256 all; > 256 only 257, 65536" + map[bool]string{true: "", false: ", 65537"}[c.Quick()] + ")"
		c.Assumptions = []string{
			"numberOfShards <= 256 (core.MaxNumShards) reads exactly one trailing address byte, so all 256 values of it x the prefix/length classes that the metachain-SC test distinguishes cover every behaviour; other prefix bytes are only read by the equality tests against zero",
			"'metachain system-contract address' is read as: longer than 25 bytes, 8 leading zero bytes, bytes[10:25] zero, last byte 0xff; the oracle only demands META => this predicate, never the converse",
			"which configured shard an ordinary address gets is not judged (the statement does not fix it)",
			"AllShardId is excluded from identifier injectivity (broadcast identifier), shard counts 16777217+ (four trailing bytes) are not enumerated",
		}
		c.Exhaustive = true

		// (A) + (B) per shard count
		mc.Par(int(core.MaxNumShards), func(i int) {
			n := uint32(i + 1)
			e.partA1(n)
		})
		mc.Par(int(core.MaxNumShards), func(i int) {
			e.partB(uint32(i+1), bLens, bCls)
		})
		e.partAwide(257, 2, lengths, e.cls)
		e.partAwide(65536, 2, lengths, e.cls)
		if !c.Quick() {
			e.partAwide(65537, 3, []int{0, 1, 2, 3, 4, 26, 32, 33},
				pickClasses(e.cls, "ordinary(0xab..)", "all-zero", "sc-meta(vm=0001)", "sc-shard(byte10=1)"))
		}
		e.partC(directIds)

		co, _ := sharding.NewMultiShardCoordinator(3, 0)
		a := bytes.Repeat([]byte{0xab}, 32)
		a[31] = 3
		c.Sample(map[string]interface{}{"numShards": 3, "address": mc.Hex(a), "computed": shardName(co.ComputeId(a))})
		m := make([]byte, 32)
		m[9], m[31] = 1, 0xff
		c.Sample(map[string]interface{}{"numShards": 3, "address": mc.Hex(m), "computed": shardName(co.ComputeId(m))})
		e.col.flush(c)
	})
}
