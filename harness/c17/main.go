// C17 — accepted blocks carry a BFT quorum of signatures.
//
// Seam: the real process/headerCheck.HeaderSigVerifier.VerifySignature wired to the real
// crypto/signing/multisig BLS multisigner (Create / SetAggregatedSig / Verify /
// isIndexInBitmap / StoreSignatureShare / AggregateSigs are all real). Two low-level signers:
//   - "set": a stub crypto.LowLevelSignerBLS in which an aggregated signature *is* the sorted
//     list of its contributors' public keys plus the signed message, and VerifyAggregatedSig
//     is list equality. This makes the cryptographic fact "an aggregate verifies exactly for
//     its contributor set and message" explicit and cheap, so that group sizes up to 16 and
//     all 2^16 bitmaps can be enumerated.
//   - "bls" (thorough tier only): the real herumi BLS low-level signer and key generator with
//     fixed private keys, group sizes 1..8.
//
// The nodes coordinator is a stub that returns the consensus group.
//
// Space: group size n in 1..16; every bitmap byte string of the expected length ceil(n/8)
// (all 2^8 / 2^16 values, padding bits included); contributor set S of the aggregate:
// every subset of the group for n<=8, and for n>8 the set selected by the bitmap plus all
// its one-member-removed and one-member-added neighbours (thorough) or {selected, selected
// minus lowest non-leader, whole group} (quick); plus wrong-length bitmaps (len-1: all,
// len+1: all for n<=8, last byte in {00,01,80,ff} for n>8) with S = selected members.
//
// Oracle (exactly the statement): VerifySignature returned nil  =>  the leader (index 0) is
// in S and |S| >= floor(2n/3)+1, where S is the set of distinct group members that really
// contributed to the aggregated signature. Rejections are never judged.
//
// Fallback validation: the expected-length part of the space is enumerated a second time with
// a FallbackHeaderValidator stub that returns true (the protocol's exception: threshold
// floor(n/2)+1, core.GetPBFTFallbackThreshold). Its oracle is "accepted => leader in S and
// |S| >= floor(n/2)+1" and its violations carry their own signatures ("fallback:..."), so
// they never mask or get mixed with the standard-threshold classes ("quorum:...").
package main

import (
	"encoding/hex"
	"encoding/json"
	"errors"
	"fmt"
	"math/bits"
	"sort"
	"strings"
	"sync"

	logger "github.com/ElrondNetwork/elrond-go-logger"
	"github.com/ElrondNetwork/elrond-go/core"
	"github.com/ElrondNetwork/elrond-go/crypto"
	"github.com/ElrondNetwork/elrond-go/crypto/signing"
	"github.com/ElrondNetwork/elrond-go/crypto/signing/mcl"
	mclmultisig "github.com/ElrondNetwork/elrond-go/crypto/signing/mcl/multisig"
	"github.com/ElrondNetwork/elrond-go/crypto/signing/multisig"
	"github.com/ElrondNetwork/elrond-go/data"
	"github.com/ElrondNetwork/elrond-go/data/block"
	"github.com/ElrondNetwork/elrond-go/hashing"
	"github.com/ElrondNetwork/elrond-go/hashing/blake2b"
	"github.com/ElrondNetwork/elrond-go/hashing/sha256"
	"github.com/ElrondNetwork/elrond-go/marshal"
	"github.com/ElrondNetwork/elrond-go/process/headerCheck"
	"github.com/ElrondNetwork/elrond-go/process/mock"
	"github.com/ElrondNetwork/elrond-go/testscommon"
	"verif/engine/mc"
)

// ---------- stub "set" signature scheme ----------

type stubKey struct{ id []byte }

func (k *stubKey) ToByteArray() ([]byte, error)     { return k.id, nil }
func (k *stubKey) Suite() crypto.Suite              { return nil }
func (k *stubKey) IsInterfaceNil() bool             { return k == nil }
func (k *stubKey) Point() crypto.Point              { return nil }
func (k *stubKey) Scalar() crypto.Scalar            { return nil }
func (k *stubKey) GeneratePublic() crypto.PublicKey { return &stubKey{id: k.id} }

type stubKeyGen struct{}

func (stubKeyGen) GeneratePair() (crypto.PrivateKey, crypto.PublicKey) { panic("not used") }
func (stubKeyGen) PrivateKeyFromByteArray(b []byte) (crypto.PrivateKey, error) {
	return &stubKey{id: append([]byte{}, b...)}, nil
}
func (stubKeyGen) PublicKeyFromByteArray(b []byte) (crypto.PublicKey, error) {
	if len(b) == 0 {
		return nil, errors.New("empty key")
	}
	return &stubKey{id: append([]byte{}, b...)}, nil
}
func (stubKeyGen) CheckPublicKeyValid(b []byte) error { return nil }
func (stubKeyGen) Suite() crypto.Suite                { return nil }
func (stubKeyGen) IsInterfaceNil() bool               { return false }

// setSigner: share = "S|<signer hex>|<msg hex>", aggregate = "A|<sorted signer hex,...>|<msg hex>".
type setSigner struct{}

var errStub = errors.New("set-signature: invalid")

func (setSigner) SignShare(priv crypto.PrivateKey, msg []byte) ([]byte, error) {
	id, _ := priv.ToByteArray()
	return []byte("S|" + hex.EncodeToString(id) + "|" + hex.EncodeToString(msg)), nil
}
func (setSigner) VerifySigShare(pub crypto.PublicKey, msg []byte, sig []byte) error {
	id, _ := pub.ToByteArray()
	if string(sig) != "S|"+hex.EncodeToString(id)+"|"+hex.EncodeToString(msg) {
		return errStub
	}
	return nil
}
func (setSigner) VerifySigBytes(_ crypto.Suite, sig []byte) error {
	if len(sig) == 0 {
		return crypto.ErrNilSignature
	}
	p := strings.Split(string(sig), "|")
	if len(p) != 3 || (p[0] != "S" && p[0] != "A") {
		return errStub
	}
	return nil
}
func (setSigner) AggregateSignatures(_ crypto.Suite, sigs [][]byte, pks []crypto.PublicKey) ([]byte, error) {
	if len(sigs) == 0 {
		return nil, crypto.ErrNilSignaturesList
	}
	if len(pks) == 0 {
		return nil, crypto.ErrNilPublicKeys
	}
	ids := []string{}
	msg := ""
	for i, s := range sigs {
		p := strings.Split(string(s), "|")
		if len(p) != 3 || p[0] != "S" {
			return nil, errStub
		}
		if i > 0 && p[2] != msg {
			return nil, errStub
		}
		msg = p[2]
		ids = append(ids, p[1])
	}
	sort.Strings(ids)
	return []byte("A|" + strings.Join(ids, ",") + "|" + msg), nil
}
func (setSigner) VerifyAggregatedSig(_ crypto.Suite, pks []crypto.PublicKey, agg []byte, msg []byte) error {
	if len(pks) == 0 {
		return crypto.ErrNilPublicKeys
	}
	ids := []string{}
	for _, pk := range pks {
		b, _ := pk.ToByteArray()
		ids = append(ids, hex.EncodeToString(b))
	}
	sort.Strings(ids)
	if string(agg) != "A|"+strings.Join(ids, ",")+"|"+hex.EncodeToString(msg) {
		return errStub
	}
	return nil
}

// ---------- world for one (scheme, n) ----------

type world struct {
	scheme   string
	n        int
	fallback bool // FallbackHeaderValidator.ShouldApplyFallbackValidation returns true
	hsv      *headerCheck.HeaderSigVerifier
	aggs     [][]byte // aggregate of the shares of exactly the members in mask (index = mask); nil for mask 0
}

func baseHeader(n int) *block.Header {
	return &block.Header{Nonce: 7, Round: 9, Epoch: 1, ShardID: 0, PrevRandSeed: []byte("prev-rand"),
		RandSeed: []byte("rand"), PrevHash: []byte("prev-hash"), RootHash: []byte("root"), ChainID: []byte("1"),
		TimeStamp: uint64(1000 + n)}
}

func bitmapOfMask(mask uint32, n int) []byte {
	l := (n + 7) / 8
	b := make([]byte, l)
	for i := 0; i < n; i++ {
		if mask&(1<<uint(i)) != 0 {
			b[i/8] |= 1 << uint(i%8)
		}
	}
	return b
}

func buildWorld(c *mc.Ctx, scheme string, n int, fallback bool) *world {
	var ll crypto.LowLevelSignerBLS
	var kg crypto.KeyGenerator
	privs := make([]crypto.PrivateKey, n)
	pubs := make([]string, n)
	if scheme == "set" {
		ll, kg = setSigner{}, stubKeyGen{}
		for i := 0; i < n; i++ {
			id := []byte(fmt.Sprintf("member-%02d", i))
			privs[i] = &stubKey{id: id}
			pubs[i] = string(id)
		}
	} else {
		h, err := blake2b.NewBlake2bWithSize(hashing.BlsHashSize)
		if err != nil {
			c.Fatal("blake2b: %v", err)
		}
		ll = &mclmultisig.BlsMultiSigner{Hasher: h}
		kg = signing.NewKeyGenerator(mcl.NewSuiteBLS12())
		for i := 0; i < n; i++ {
			// fixed, deterministic private scalars (no randomness in the harness)
			sk := make([]byte, 32)
			sk[0] = 0x11
			sk[30] = byte(n)
			sk[31] = byte(i + 1)
			p, err := kg.PrivateKeyFromByteArray(sk)
			if err != nil {
				c.Fatal("bls private key: %v", err)
			}
			privs[i] = p
			pb, err := p.GeneratePublic().ToByteArray()
			if err != nil {
				c.Fatal("bls public key: %v", err)
			}
			pubs[i] = string(pb)
		}
	}
	marsh := &marshal.GogoProtoMarshalizer{}
	hasher := sha256.NewSha256()
	root, err := multisig.NewBLSMultisig(ll, pubs, privs[0], kg, 0)
	if err != nil {
		c.Fatal("NewBLSMultisig: %v", err)
	}
	nc := &mock.NodesCoordinatorMock{
		GetValidatorsPublicKeysCalled: func(_ []byte, _ uint64, _ uint32, _ uint32) ([]string, error) {
			return append([]string{}, pubs...), nil
		},
	}
	hsv, err := headerCheck.NewHeaderSigVerifier(&headerCheck.ArgsHeaderSigVerifier{
		Marshalizer: marsh, Hasher: hasher, NodesCoordinator: nc, MultiSigVerifier: root,
		SingleSigVerifier: &mock.SignerMock{}, KeyGen: kg,
		FallbackHeaderValidator: &testscommon.FallBackHeaderValidatorStub{
			ShouldApplyFallbackValidationCalled: func(data.HeaderHandler) bool { return fallback },
		},
	})
	if err != nil {
		c.Fatal("NewHeaderSigVerifier: %v", err)
	}
	// the signed message: hash of the header without signature and bitmap (what consensus signs)
	msg, err := core.CalculateHash(marsh, hasher, baseHeader(n))
	if err != nil {
		c.Fatal("hash: %v", err)
	}
	// every member produces its share through the real multisigner
	shares := make([][]byte, n)
	for i := 0; i < n; i++ {
		ms, err := multisig.NewBLSMultisig(ll, pubs, privs[i], kg, uint16(i))
		if err != nil {
			c.Fatal("member multisigner: %v", err)
		}
		shares[i], err = ms.CreateSignatureShare(msg, nil)
		if err != nil {
			c.Fatal("share: %v", err)
		}
		if err = root.VerifySignatureShare(uint16(i), shares[i], msg, nil); err != nil {
			c.Fatal("share of member %d does not verify: %v", i, err)
		}
	}
	w := &world{scheme: scheme, n: n, fallback: fallback, hsv: hsv, aggs: make([][]byte, 1<<uint(n))}
	mc.Par(1<<uint(n), func(mi int) {
		if mi == 0 {
			return
		}
		// The aggregate of contributor set mi is built with the low-level signer directly, NOT
		// through the multisigner's AggregateSigs(bitmap): the adversary's aggregate must not
		// depend on how the code under test interprets a bitmap (an independent seed changed
		// isIndexInBitmap, which made AggregateSigs and Verify agree on the wrong member set).
		var sigs [][]byte
		var pks []crypto.PublicKey
		for i := 0; i < n; i++ {
			if mi&(1<<uint(i)) != 0 {
				pk, err := kg.PublicKeyFromByteArray([]byte(pubs[i]))
				if err != nil {
					c.Fatal("public key: %v", err)
				}
				sigs = append(sigs, shares[i])
				pks = append(pks, pk)
			}
		}
		var err error
		w.aggs[mi], err = ll.AggregateSignatures(kg.Suite(), sigs, pks)
		if err != nil {
			c.Fatal("aggregate: %v", err)
		}
	})
	return w
}

// one case
type kase struct {
	Scheme  string `json:"scheme"`
	N       int    `json:"group_size"`
	Bitmap  string `json:"bitmap_hex"`
	Signers uint32 `json:"contributors_mask"`
	// Fallback: the fallback header validator says the n/2+1 threshold applies
	Fallback bool `json:"fallback,omitempty"`
}

func (w *world) run(bitmap []byte, signers uint32) error {
	h := baseHeader(w.n)
	h.PubKeysBitmap = bitmap
	h.Signature = w.aggs[signers]
	return w.hsv.VerifySignature(h)
}

func bitsStr(b []byte) string {
	s := ""
	for i, x := range b {
		if i > 0 {
			s += " "
		}
		s += fmt.Sprintf("%08b", x)
	}
	return s
}

type found struct {
	rank   [4]int
	detail map[string]interface{}
	replay kase
	count  int64
}

type collector struct {
	mu sync.Mutex
	m  map[string]*found
}

func (cl *collector) add(sig string, rank [4]int, mk func() (map[string]interface{}, kase)) {
	cl.mu.Lock()
	defer cl.mu.Unlock()
	f := cl.m[sig]
	if f == nil {
		f = &found{rank: [4]int{1 << 30}}
		cl.m[sig] = f
	}
	f.count++
	less := false
	for i := range rank {
		if rank[i] != f.rank[i] {
			less = rank[i] < f.rank[i]
			break
		}
	}
	if less {
		f.rank = rank
		f.detail, f.replay = mk()
	}
}

func threshold(n int) int { return n*2/3 + 1 }

// check runs one case and judges it. variant names the bitmap family for counters.
// acc batches the per-case bookkeeping of one parallel work item (the engine's counters take
// a global lock); flush publishes it.
type acc struct {
	evals, accepted int64
	outcomes        map[string]struct{}
	lastNT          string
}

func (a *acc) flush(c *mc.Ctx) {
	c.Eval(a.evals)
	if a.accepted > 0 {
		c.Count("accepted", a.accepted)
	}
	for o := range a.outcomes {
		c.Outcome(o)
	}
}

func check(c *mc.Ctx, a *acc, cl *collector, w *world, bitmap []byte, signers uint32, variant string) {
	n := w.n
	err := w.run(bitmap, signers)
	a.evals++
	if a.outcomes == nil {
		a.outcomes = map[string]struct{}{}
	}
	expLen := (n + 7) / 8
	padding := 0 // bits set at positions >= n
	selected := uint32(0)
	for i := 0; i < len(bitmap)*8; i++ {
		if bitmap[i/8]&(1<<uint(i%8)) != 0 {
			if i < n {
				selected |= 1 << uint(i)
			} else {
				padding++
			}
		}
	}
	if err == nil {
		a.outcomes["accepted"] = struct{}{}
		a.accepted++
	} else {
		a.outcomes[err.Error()] = struct{}{}
	}
	if padding > 0 && len(bitmap) == expLen {
		// non-trivial: right-length bitmap with >= 1 padding bit set
		if k := fmt.Sprint(w.scheme, w.fallback, n, bitmap); k != a.lastNT {
			a.lastNT = k
			c.Nontrivial(k)
		}
		if err == nil && c.WantSample() {
			c.Sample(map[string]interface{}{"scheme": w.scheme, "group_size": n, "bitmap": bitsStr(bitmap), "contributors": bits.OnesCount32(signers), "result": "accepted"})
		}
	}
	if err != nil {
		return
	}
	cnt := bits.OnesCount32(signers)
	thr := threshold(n)
	class := "quorum"
	if w.fallback {
		// separate oracle and separate signatures for the fallback (n/2+1) threshold
		thr = core.GetPBFTFallbackThreshold(n)
		class = "fallback"
	}
	sig := ""
	switch {
	case cnt < thr && padding > 0 && w.fallback:
		sig = "fallback:padding-bits-counted-toward-threshold"
	case cnt < thr && padding > 0:
		sig = "quorum:padding-bits-counted"
	case cnt < thr:
		sig = class + ":accepted-below-threshold"
	case signers&1 == 0:
		sig = class + ":accepted-without-leader"
	}
	if signers != selected {
		// not demanded by the statement, reported as information only
		c.Count("accepted_with_contributors_differing_from_bitmap", 1)
	}
	if sig == "" {
		return
	}
	if w.scheme != "set" {
		sig += ":real-bls"
	}
	bm := append([]byte{}, bitmap...)
	cl.add(sig, [4]int{n, cnt, len(bm), int(bm[len(bm)-1])}, func() (map[string]interface{}, kase) {
		k := kase{Scheme: w.scheme, N: n, Bitmap: hex.EncodeToString(bm), Signers: signers, Fallback: w.fallback}
		return map[string]interface{}{
			"scheme": w.scheme, "group_size": n, "required_signers": thr, "fallback_validation": w.fallback,
			"bitmap_msb_first_per_byte": bitsStr(bm), "bitmap_hex": hex.EncodeToString(bm),
			"real_contributors": cnt, "contributors_mask": signers, "padding_bits_set": padding,
			"bitmap_variant": variant, "result": "VerifySignature returned nil",
		}, k
	})
}

func enumerate(c *mc.Ctx, cl *collector, w *world) {
	n := w.n
	full := uint32(1)<<uint(n) - 1
	L := (n + 7) / 8
	nb := 1 << uint(8*L)
	toBytes := func(v int, l int) []byte {
		b := make([]byte, l)
		for i := 0; i < l; i++ {
			b[i] = byte(v >> uint(8*i))
		}
		return b
	}
	// right-length bitmaps
	mc.Par(nb, func(v int) {
		a := &acc{}
		defer a.flush(c)
		bm := toBytes(v, L)
		sel := uint32(v) & full
		if n <= 8 {
			for s := uint32(0); s <= full; s++ {
				check(c, a, cl, w, bm, s, "expected-length")
			}
			return
		}
		check(c, a, cl, w, bm, sel, "expected-length")
		if c.Quick() {
			if low := sel &^ 1; low != 0 {
				check(c, a, cl, w, bm, sel&^(low&-low), "expected-length")
			}
			if sel != full {
				check(c, a, cl, w, bm, full, "expected-length")
			}
			return
		}
		for i := 0; i < n; i++ {
			check(c, a, cl, w, bm, sel^(1<<uint(i)), "expected-length")
		}
	})
	if w.scheme != "set" || w.fallback {
		return
	}
	// wrong lengths, contributors = selected members
	a := &acc{}
	check(c, a, cl, w, nil, full, "empty")
	check(c, a, cl, w, []byte{}, full, "empty")
	a.flush(c)
	if L == 2 {
		mc.Par(256, func(v int) {
			a := &acc{}
			defer a.flush(c)
			bm := toBytes(v, 1)
			check(c, a, cl, w, bm, uint32(v)&full, "one-byte-short")
			check(c, a, cl, w, bm, full, "one-byte-short")
		})
		for _, last := range []int{0x00, 0x01, 0x80, 0xff} {
			last := last
			mc.Par(nb/256, func(hi int) {
				a := &acc{}
				defer a.flush(c)
				for lo := 0; lo < 256; lo++ {
					v := hi<<8 | lo
					check(c, a, cl, w, toBytes(v|last<<16, 3), uint32(v)&full, "one-byte-long")
				}
			})
		}
	} else {
		mc.Par(1<<8, func(hi int) {
			a := &acc{}
			defer a.flush(c)
			for lo := 0; lo < 256; lo++ {
				v := hi<<8 | lo
				check(c, a, cl, w, toBytes(v, 2), uint32(v)&full, "one-byte-long")
			}
		})
	}
}

func main() {
	mc.Main("C17", "exploration", func(c *mc.Ctx) {
		maxN := 16
		c.Rule = "group size n in 1..16 x every bitmap byte string of length ceil(n/8) x contributor sets of the aggregated signature " +
			"(n<=8: every subset of the group; n>8: the members selected by the bitmap, " +
			map[bool]string{true: "that set minus its lowest non-leader member, and the whole group", false: "and every set differing from it in exactly one member"}[c.Quick()] +
			") + wrong-length bitmaps (empty, len-1 all values, len+1: all values for n<=8, last byte in {00,01,80,ff} for n>8); " +
			"set-valued stub signature scheme under the real BLS multisigner" +
			map[bool]string{true: "", false: "; n in 1..8 repeated with the real herumi BLS signer (all bitmaps x all contributor subsets)"}[c.Quick()] +
			"; the expected-length part repeated with fallback validation ON (stub FallbackHeaderValidator returns true; oracle threshold floor(n/2)+1, signatures prefixed fallback:)" +
			". non-trivial = expected-length bitmap with >=1 padding bit (index >= n) set"
		c.Bound = fmt.Sprintf("n <= %d, all bitmaps of the expected length", maxN)
		c.Assumptions = []string{
			"consensus group public keys are pairwise distinct (the production selector never repeats a validator in one group)",
			"quorum:* signatures: fallback validation is off (FallbackHeaderValidator returns false), the 2/3+1 threshold of the statement applies; fallback:* signatures: the validator returns true and the oracle demands core.GetPBFTFallbackThreshold(n) real contributors and the leader (the protocol's documented exception to 2/3+1)",
			"set scheme: an aggregate verifies exactly for its contributor multiset and message (the security property of BLS multisignatures is assumed, not checked); the thorough tier re-runs n<=8 with the real BLS library",
			"leader = index 0 of the consensus group",
			"signature shares are produced over the hash of the header without signature/bitmap/leader signature, as consensus does",
		}
		cl := &collector{m: map[string]*found{}}
		// verifyConsensusSize logs a WARN line per fallback validation: silence the logger
		if err := logger.SetLogLevel("*:NONE"); err != nil {
			c.Fatal("logger: %v", err)
		}

		if len(c.ReplayData) > 0 {
			var k kase
			if err := json.Unmarshal(c.ReplayData, &k); err != nil {
				c.Fatal("bad replay data: %v", err)
			}
			bm, _ := hex.DecodeString(k.Bitmap)
			w := buildWorld(c, k.Scheme, k.N, k.Fallback)
			a := &acc{}
			check(c, a, cl, w, bm, k.Signers, "replay")
			a.flush(c)
		} else {
			for n := 1; n <= maxN; n++ {
				enumerate(c, cl, buildWorld(c, "set", n, false))
			}
			// fallback validation on (threshold n/2+1), own oracle and signatures
			for n := 1; n <= maxN; n++ {
				enumerate(c, cl, buildWorld(c, "set", n, true))
			}
			if !c.Quick() {
				for n := 1; n <= 8; n++ {
					enumerate(c, cl, buildWorld(c, "bls", n, false))
				}
			}
		}

		sigs := []string{}
		for s := range cl.m {
			sigs = append(sigs, s)
		}
		sort.Strings(sigs)
		for _, s := range sigs {
			f := cl.m[s]
			f.detail["violating_cases_in_this_class"] = f.count
			c.Count("violating_cases:"+s, f.count)
			c.Violation(s, f.detail, f.replay)
		}
	})
}
