package main

// The common driver of the syssc harness: the production wiring of the system smart
// contracts (systemSmartContracts.NewVMContext + vm/factory.NewSystemSCFactory(..).Create()
// + vm/process.NewSystemVM) over a world that is nothing but maps, served to the contracts
// through a stub BlockchainHook. A top-level call is systemVM.RunSmartContractCall; its
// VMOutput (storage updates, balance deltas, code) is applied to the world iff the return
// code is Ok - that is what scProcessor / systemSCProcessor.processSCOutputAccounts do.

import (
	"bytes"
	"errors"
	"fmt"
	"math/big"
	"os"
	"sort"
	"strings"
	"sync"

	arwenConfig "github.com/ElrondNetwork/arwen-wasm-vm/config"
	"github.com/ElrondNetwork/elrond-go/config"
	"github.com/ElrondNetwork/elrond-go/core"
	"github.com/ElrondNetwork/elrond-go/core/check"
	"github.com/ElrondNetwork/elrond-go/data"
	"github.com/ElrondNetwork/elrond-go/data/state"
	"github.com/ElrondNetwork/elrond-go/marshal"
	"github.com/ElrondNetwork/elrond-go/process/factory"
	"github.com/ElrondNetwork/elrond-go/process/smartContract/hooks"
	"github.com/ElrondNetwork/elrond-go/testscommon"
	"github.com/ElrondNetwork/elrond-go/vm"
	vmfactory "github.com/ElrondNetwork/elrond-go/vm/factory"
	vmmock "github.com/ElrondNetwork/elrond-go/vm/mock"
	vmprocess "github.com/ElrondNetwork/elrond-go/vm/process"
	ssc "github.com/ElrondNetwork/elrond-go/vm/systemSmartContracts"
	"github.com/ElrondNetwork/elrond-go/vm/systemSmartContracts/defaults"
	vmcommon "github.com/ElrondNetwork/elrond-vm-common"
	"github.com/ElrondNetwork/elrond-vm-common/parsers"
)

var protoMarsh = &marshal.GogoProtoMarshalizer{}
var sscKeys = ssc.VerifSysscStorageKeys()

const never = uint32(1 << 30)

// ---- world -------------------------------------------------------------------------------

type world struct {
	storage map[string]map[string][]byte
	owned   map[string]bool // inner storage maps this instance may modify (copy-on-write)
	balance map[string]*big.Int
	code    map[string][]byte
	epoch   uint32
}

func newWorld() *world {
	return &world{storage: map[string]map[string][]byte{}, owned: map[string]bool{}, balance: map[string]*big.Int{}, code: map[string][]byte{}}
}

// clone is copy-on-write for the per-address storage maps: both copies share them and the
// first write through either copy duplicates the map it touches (see writable).
func (w *world) clone() *world {
	c := newWorld()
	c.epoch = w.epoch
	for a, m := range w.storage {
		c.storage[a] = m
	}
	for a := range w.owned {
		delete(w.owned, a)
	}
	for a, b := range w.balance {
		c.balance[a] = new(big.Int).Set(b)
	}
	for a, b := range w.code {
		c.code[a] = b
	}
	return c
}

func (w *world) writable(a string) map[string][]byte {
	m := w.storage[a]
	if w.owned[a] {
		return m
	}
	cm := make(map[string][]byte, len(m)+2)
	for k, v := range m {
		cm[k] = v // values are never modified in place
	}
	w.storage[a] = cm
	w.owned[a] = true
	return cm
}

func (w *world) get(addr []byte, key string) []byte {
	return w.storage[string(addr)][key]
}

func (w *world) bal(addr []byte) *big.Int {
	b := w.balance[string(addr)]
	if b == nil {
		return new(big.Int)
	}
	return b
}

func (w *world) addBal(addr []byte, d *big.Int) {
	if d == nil || d.Sign() == 0 {
		return
	}
	b := w.balance[string(addr)]
	if b == nil {
		b = new(big.Int)
		w.balance[string(addr)] = b
	}
	b.Add(b, d)
}

// nonce is a function of the epoch, so records that store nonces take few values and
// states merge; 10 nonces per epoch, the staking unbond period (in nonces) is 10.
func (w *world) nonce() uint64 { return uint64(w.epoch)*10 + 5 }

// canonical text of the contracts' storage (sorted) + epoch: the state key material.
func (w *world) canon(sb *strings.Builder) {
	sb.Grow(8192)
	wr := func(b string) { // length-prefixed raw bytes: injective, and the key is hashed anyway
		fmt.Fprintf(sb, "%d:", len(b))
		sb.WriteString(b)
	}
	fmt.Fprintf(sb, "e%d|", w.epoch)
	addrs := make([]string, 0, len(w.storage))
	for a := range w.storage {
		addrs = append(addrs, a)
	}
	sort.Strings(addrs)
	for _, a := range addrs {
		m := w.storage[a]
		if len(m) == 0 {
			continue
		}
		keys := make([]string, 0, len(m))
		for k := range m {
			keys = append(keys, k)
		}
		sort.Strings(keys)
		wr(a)
		sb.WriteByte('{')
		for _, k := range keys {
			wr(k)
			wr(string(m[k]))
		}
		sb.WriteByte('}')
	}
	codes := make([]string, 0, len(w.code))
	for a := range w.code {
		codes = append(codes, a)
	}
	sort.Strings(codes)
	for _, a := range codes {
		sb.WriteByte('c')
		wr(a)
		wr(string(w.code[a]))
	}
}

// ---- epoch notifier ----------------------------------------------------------------------

// epochNotifier is the harness-driven stand-in of forking.genericEpochNotifier: handlers
// registered by the contracts' constructors are told the current epoch on registration and
// on every epoch event of the harness.
type epochNotifier struct {
	epoch    uint32
	handlers []core.EpochSubscriberHandler
}

func (n *epochNotifier) RegisterNotifyHandler(h core.EpochSubscriberHandler) {
	if check.IfNil(h) {
		return
	}
	n.handlers = append(n.handlers, h)
	h.EpochConfirmed(n.epoch, 0)
}
func (n *epochNotifier) CurrentEpoch() uint32          { return n.epoch }
func (n *epochNotifier) CheckEpoch(data.HeaderHandler) {}
func (n *epochNotifier) IsInterfaceNil() bool          { return n == nil }
func (n *epochNotifier) confirm(epoch uint32) {
	n.epoch = epoch
	for _, h := range n.handlers {
		h.EpochConfirmed(epoch, 0)
	}
}

// ---- the VM ------------------------------------------------------------------------------

type sysConfig struct {
	name       string
	minNodes   uint32
	maxNodes   uint64
	enable     config.EnableEpochs
	unBondNonc uint64
}

type sysVM struct {
	w        *world
	vm       vmcommon.VMExecutionHandler
	notifier *epochNotifier
}

var errNoPeer = errors.New("no peer account")

var gasMapCache = func() map[string]map[string]uint64 {
	g := arwenConfig.MakeGasMapForTests()
	return defaults.FillGasMapInternal(g, 1)
}()

func newSysVM(cfg *sysConfig, w *world) *sysVM {
	s := &sysVM{w: w, notifier: &epochNotifier{epoch: w.epoch}}
	hook := &vmmock.BlockChainHookStub{
		GetStorageDataCalled: func(addr []byte, index []byte) ([]byte, error) {
			return s.w.storage[string(addr)][string(index)], nil
		},
		GetUserAccountCalled: func(addr []byte) (vmcommon.UserAccountHandler, error) {
			acc, err := state.NewUserAccount(addr)
			if err != nil {
				return nil, err
			}
			if b := s.w.balance[string(addr)]; b != nil && b.Sign() > 0 {
				_ = acc.AddToBalance(b)
			}
			return acc, nil
		},
		GetCodeCalled: func(acc vmcommon.UserAccountHandler) []byte {
			return s.w.code[string(acc.AddressBytes())]
		},
		CurrentNonceCalled:      func() uint64 { return s.w.nonce() },
		CurrentRoundCalled:      func() uint64 { return s.w.nonce() },
		CurrentEpochCalled:      func() uint32 { return s.w.epoch },
		CurrentRandomSeedCalled: func() []byte { return []byte("seed") },
		NumberOfShardsCalled:    func() uint32 { return 1 },
	}
	peers := &testscommon.AccountsStub{
		GetExistingAccountCalled: func([]byte) (vmcommon.AccountHandler, error) { return nil, errNoPeer },
	}
	eei, err := ssc.NewVMContext(hook, hooks.NewVMCryptoHook(), parsers.NewCallArgsParser(), peers, &vmmock.RaterMock{})
	must(err)
	gas := vmmock.NewGasScheduleNotifierMock(gasMapCache)
	epochCfg := &config.EpochConfig{EnableEpochs: cfg.enable}
	scFactory, err := vmfactory.NewSystemSCFactory(vmfactory.ArgsNewSystemSCFactory{
		SystemEI:    eei,
		SigVerifier: &vmmock.MessageSignVerifierMock{},
		GasSchedule: gas,
		NodesConfigProvider: &vmmock.NodesConfigProviderStub{
			MinNumberOfNodesCalled: func() uint32 { return cfg.minNodes },
		},
		Hasher:      &vmmock.HasherMock{},
		Marshalizer: protoMarsh,
		SystemSCConfig: &config.SystemSmartContractsConfig{
			ESDTSystemSCConfig: config.ESDTSystemSCConfig{BaseIssuingCost: "1000", OwnerAddress: "aaaaaa"},
			GovernanceSystemSCConfig: config.GovernanceSystemSCConfig{
				Active:                  config.GovernanceSystemSCConfigActive{ProposalCost: "500", MinQuorum: "50", MinPassThreshold: "50", MinVetoThreshold: "50"},
				FirstWhitelistedAddress: "3132333435363738393031323334353637383930313233343536373839303234",
			},
			StakingSystemSCConfig: config.StakingSystemSCConfig{
				GenesisNodePrice:         "1000",
				UnJailValue:              "10",
				MinStepValue:             "10",
				MinStakeValue:            "1000",
				UnBondPeriod:             cfg.unBondNonc,
				UnBondPeriodInEpochs:     1,
				NumRoundsWithoutBleed:    1,
				MaximumPercentageToBleed: 1,
				BleedPercentagePerRound:  1,
				MaxNumberOfNodesForStake: cfg.maxNodes,
				MinUnstakeTokensValue:    "1",
			},
			DelegationSystemSCConfig: config.DelegationSystemSCConfig{MinServiceFee: 0, MaxServiceFee: 10000},
			DelegationManagerSystemSCConfig: config.DelegationManagerSystemSCConfig{
				MinCreationDeposit:  "10",
				MinStakeAmount:      "10",
				ConfigChangeAddress: "3132333435363738393031323334353637383930313233343536373839303234",
			},
		},
		Economics:              &vmmock.EconomicsHandlerStub{},
		EpochNotifier:          s.notifier,
		AddressPubKeyConverter: &vmmock.PubkeyConverterMock{},
		EpochConfig:            epochCfg,
		ShardCoordinator:       &vmmock.ShardCoordinatorStub{},
	})
	must(err)
	contracts, err := scFactory.Create()
	must(err)
	must(eei.SetSystemSCContainer(contracts))
	s.vm, err = vmprocess.NewSystemVM(vmprocess.ArgsNewSystemVM{
		SystemEI:        eei,
		SystemContracts: contracts,
		VmType:          factory.SystemVirtualMachine,
		GasSchedule:     gas,
	})
	must(err)
	return s
}

// vmPool recycles built VMs of one configuration. Building one costs ~1.2 ms (the factory
// decodes the gas schedule twice), a search replays hundreds of thousands of histories, so
// an instance is built once and re-pointed at a fresh copy of the genesis world. That is a
// completely fresh instance: the contracts keep no state of their own besides their
// constructor configuration and the feature flags, which get() re-derives from the world's epoch,
// and the eei cache, which every top-level call cleans first.
type vmPool struct {
	cfg  *sysConfig
	pool sync.Pool
}

func (p *vmPool) get(w *world) *sysVM {
	if v, ok := p.pool.Get().(*sysVM); ok && v != nil {
		v.w = w
		v.notifier.confirm(w.epoch)
		return v
	}
	return newSysVM(p.cfg, w)
}

func (p *vmPool) put(v *sysVM) {
	v.w = nil
	p.pool.Put(v)
}

// memo keeps snapshots of recently materialised histories. mc.BFS builds every successor by
// replaying the whole history on a fresh instance; the world is plain data, so an instance
// here is lazy: Do only records the operation, and the first observation (Enabled, Check,
// Key, ...) materialises the state by restoring the snapshot of the longest memoised prefix
// of its history and really executing the remaining operations on the contracts. A frontier
// history is thus executed once and each of its successors costs one real transaction.
// Equivalent to the full replay because every operation is deterministic (same counts with
// the memo disabled: SYSSC_NOMEMO=1).
type memo struct {
	mu    sync.Mutex
	m     map[string]interface{}
	ring  []string
	next  int
	noUse bool
}

func newMemo(capacity int) *memo {
	return &memo{m: map[string]interface{}{}, ring: make([]string, capacity), noUse: os.Getenv("SYSSC_NOMEMO") != ""}
}

func (c *memo) get(hist []byte) interface{} {
	if c.noUse {
		return nil
	}
	c.mu.Lock()
	v := c.m[string(hist)]
	c.mu.Unlock()
	return v
}

func (c *memo) put(hist []byte, v interface{}) {
	if c.noUse {
		return
	}
	k := string(hist)
	c.mu.Lock()
	if _, ok := c.m[k]; !ok {
		if old := c.ring[c.next]; old != "" {
			delete(c.m, old)
		}
		c.ring[c.next] = k
		c.next = (c.next + 1) % len(c.ring)
		c.m[k] = v
	}
	c.mu.Unlock()
}

func must(err error) {
	if err != nil {
		panic(err)
	}
}

// setEpoch is the harness epoch event: hook epoch/nonce move and the contracts' feature
// flags are re-evaluated through the notifier, like forking.genericEpochNotifier does.
func (s *sysVM) setEpoch(e uint32) {
	s.w.epoch = e
	s.notifier.confirm(e)
}

const gasPlenty = uint64(1) << 50

// apply commits a VMOutput like scProcessor.processSCOutputAccounts: storage updates,
// balance deltas and deployed code; the caller has paid the call value.
func (s *sysVM) apply(caller []byte, value *big.Int, out *vmcommon.VMOutput) {
	s.w.addBal(caller, new(big.Int).Neg(value))
	for _, oa := range out.OutputAccounts {
		a := string(oa.Address)
		var m map[string][]byte
		for _, su := range oa.StorageUpdates {
			if m == nil {
				m = s.w.writable(a)
			}
			if len(su.Data) == 0 {
				delete(m, string(su.Offset))
			} else {
				m[string(su.Offset)] = append([]byte(nil), su.Data...)
			}
		}
		s.w.addBal(oa.Address, oa.BalanceDelta)
		if len(oa.Code) > 0 {
			s.w.code[a] = append([]byte(nil), oa.Code...)
		}
	}
}

// call = one top-level transaction to a system smart contract.
func (s *sysVM) call(caller, dest []byte, fn string, value *big.Int, args ...[]byte) *vmcommon.VMOutput {
	if value == nil {
		value = new(big.Int)
	}
	out, err := s.vm.RunSmartContractCall(&vmcommon.ContractCallInput{
		VMInput: vmcommon.VMInput{
			CallerAddr:  caller,
			Arguments:   args,
			CallValue:   new(big.Int).Set(value),
			GasProvided: gasPlenty,
		},
		RecipientAddr: dest,
		Function:      fn,
	})
	if err != nil {
		return &vmcommon.VMOutput{ReturnCode: vmcommon.ExecutionFailed, ReturnMessage: err.Error()}
	}
	if out.ReturnCode == vmcommon.Ok {
		s.apply(caller, value, out)
	}
	return out
}

// deploy = the genesis / systemSCProcessor.initDelegationSystemSC way of initialising a
// system contract: RunSmartContractCreate with the contract's own address as caller.
func (s *sysVM) deploy(addr []byte) {
	out, err := s.vm.RunSmartContractCreate(&vmcommon.ContractCreateInput{
		VMInput:      vmcommon.VMInput{CallerAddr: addr, CallValue: new(big.Int), GasProvided: gasPlenty},
		ContractCode: addr,
	})
	must(err)
	if out.ReturnCode != vmcommon.Ok {
		panic("deploy failed: " + out.ReturnMessage)
	}
	s.apply(addr, new(big.Int), out)
}

// received returns what addr nets in this output (sum of its balance delta).
func received(out *vmcommon.VMOutput, addr []byte) *big.Int {
	r := new(big.Int)
	for _, oa := range out.OutputAccounts {
		if bytes.Equal(oa.Address, addr) && oa.BalanceDelta != nil {
			r.Add(r, oa.BalanceDelta)
		}
	}
	return r
}

func userAddr(tag byte) []byte { return bytes.Repeat([]byte{tag}, 32) }

func blsKey(tag byte) []byte { return bytes.Repeat([]byte{tag}, 96) }

func bi(n int64) *big.Int { return big.NewInt(n) }

var _ = vm.StakingSCAddress
