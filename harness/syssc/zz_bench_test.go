package main

import (
	"testing"
	"verif/engine/mc"
)

func BenchmarkInit39(b *testing.B) {
	c := mc.New("C39", "model_checking", "quick")
	y := newSys39(configs39(c)[0], 4, 2)
	b.ResetTimer()
	for i := 0; i < b.N; i++ {
		y.init()
	}
}

func BenchmarkOps39(b *testing.B) {
	c := mc.New("C39", "model_checking", "quick")
	y := newSys39(configs39(c)[0], 4, 2)
	s := y.init()
	b.ResetTimer()
	for i := 0; i < b.N; i++ {
		s.do(i % 12)
		s.check()
		s.key()
	}
}
