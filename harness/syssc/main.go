// Harness syssc - system smart contracts under the production wiring.
//
//	C38  delegation contract bookkeeping stays consistent        (c38.go)
//	C39  staking queue and staked-node count stay consistent      (c39.go)
//
// Both are explicit-state searches (mc.BFS) over transaction histories against the real
// contracts; the common driver (world of maps, stub BlockchainHook, apply-iff-Ok) is in
// world.go. One binary serves both properties (--property selects).
package main

import (
	"encoding/json"
	"flag"
	"os"
	"runtime/pprof"

	"verif/engine/mc"
)

// development flag: --depth overrides the tier's search depth (registered runs never set it)
var depthFlag = flag.Int("depth", 0, "override the search depth (development)")

func pickDepth(c *mc.Ctx, q, t int) int {
	if *depthFlag > 0 {
		return *depthFlag
	}
	return c.Pick(q, t)
}

func main() {
	mc.Main("C38", "model_checking", func(c *mc.Ctx) {
		c.Level = "model_checking"
		if p := os.Getenv("SYSSC_CPUPROF"); p != "" { // development aid
			if f, err := os.Create(p); err == nil {
				_ = pprof.StartCPUProfile(f)
				defer pprof.StopCPUProfile()
			}
		}
		switch c.Prop {
		case "C38":
			runC38(c)
		case "C39":
			runC39(c)
		default:
			c.Fatal("harness syssc does not serve property %s", c.Prop)
		}
	})
}

// replayNames decodes a replay artefact (list of operation names) and hands it to run.
func replayNames(c *mc.Ctx, run func(names []string)) {
	var names []string
	if err := json.Unmarshal(c.ReplayData, &names); err != nil {
		c.Fatal("replay data is not a list of operation names: %v", err)
	}
	run(names)
}

// runNames re-runs one named history on a fresh instance and reports the first violation.
func runNames(c *mc.Ctx, names []string, menu []string, cfgName string, mk func() (step func(int) (string, string), enabled func(int) bool)) {
	var ops []int
	for _, n := range names {
		for i, m := range menu {
			if m == n {
				ops = append(ops, i)
			}
		}
	}
	if len(ops) != len(names) {
		return
	}
	c.Eval(1)
	perr := mc.Try(func() {
		step, enabled := mk()
		for _, o := range ops {
			if !enabled(o) {
				return
			}
			if sig, det := step(o); sig != "" {
				c.Violation(sig, map[string]interface{}{"history": names, "what": det}, names)
				return
			}
		}
	})
	if perr != "" {
		c.Violation("panic", map[string]interface{}{"history": names, "what": perr, "config": cfgName}, names)
	}
}
