package main

// C39 - staking queue and staked-node count stay consistent.
//
// Entry points: user transactions go to the validator contract (stake, unStake, unBond,
// unJail - it calls the staking contract through eei.ExecuteOnDestContext), protocol calls go
// to the staking contract with the protocol's caller addresses (jail, switchJailedWithWaiting,
// unStakeAtEndOfEpoch, stakeNodesFromQueue, updateConfigMaxNodes, resetLastUnJailedFromQueue,
// cleanAdditionalQueue). The oracle decodes the staking contract's storage after every
// transaction and evaluates exactly the clauses of the statement.

import (
	"bytes"
	"encoding/hex"
	"fmt"
	"math/big"
	"strings"

	"github.com/ElrondNetwork/elrond-go/config"
	"github.com/ElrondNetwork/elrond-go/vm"
	ssc "github.com/ElrondNetwork/elrond-go/vm/systemSmartContracts"
	vmcommon "github.com/ElrondNetwork/elrond-vm-common"
	"verif/engine/mc"
)

type op39 struct {
	name string
	kind string
	k    int // key index, owner index or argument
}

type sys39 struct {
	cfg      *sysConfig
	pool     *vmPool
	memo     *memo
	genesis  *world
	nKeys    int
	maxEpoch uint32
	menu     []string
	ops      []op39
	keys     [][]byte
	owners   [][]byte
	start    string // "" = genesis; otherwise the named transactions already executed
	depth    int
}

type st39 struct {
	y       *sys39
	hist    []byte // operations recorded so far (see memo in world.go)
	v       *sysVM // nil until the state is materialised
	lowered bool   // updateConfigMaxNodes lowered the maximum somewhere in this history
	pending int    // end-of-epoch step: validators unstaked and not yet replaced from the queue
	last    string
}

func (y *sys39) owner(k int) []byte { return y.owners[k/2] }

func newSys39(cfg *sysConfig, nKeys int, maxEpoch uint32, prefix []string, depth int) *sys39 {
	y := &sys39{cfg: cfg, nKeys: nKeys, maxEpoch: maxEpoch, depth: depth, start: strings.Join(prefix, ",")}
	for i := 0; i < nKeys; i++ {
		y.keys = append(y.keys, blsKey(byte(0xb1+i)))
	}
	y.owners = [][]byte{userAddr(0xa1), userAddr(0xa2), userAddr(0xa3)}
	add := func(name, kind string, k int) {
		y.menu = append(y.menu, name)
		y.ops = append(y.ops, op39{name, kind, k})
	}
	for _, kind := range []string{"stake", "unStake", "unBond", "unJail", "jail", "switchJailedWithWaiting", "endOfEpochUnStake"} {
		for i := 0; i < nKeys; i++ {
			add(fmt.Sprintf("%s(k%d)", kind, i+1), kind, i)
		}
	}
	for o := 0; o*2+1 < nKeys; o++ {
		add(fmt.Sprintf("unStake(k%d,k%d)", o*2+1, o*2+2), "unStake2", o)
	}
	add("endOfEpochStakeFromQueue", "stakeNodesFromQueue", 0)
	for _, n := range []int{1, 2, 3} {
		add(fmt.Sprintf("updateConfigMaxNodes(%d)", n), "updateConfigMaxNodes", n)
	}
	add("resetLastUnJailedFromQueue", "resetLastUnJailedFromQueue", 0)
	add("cleanAdditionalQueue", "cleanAdditionalQueue", 0)
	add("epoch+1", "epoch", 0)

	// genesis: the system contracts initialised the way genesis / systemSCProcessor do it
	w := newWorld()
	v := newSysVM(cfg, w)
	v.deploy(vm.StakingSCAddress)
	v.deploy(vm.ValidatorSCAddress)
	v.deploy(vm.DelegationManagerSCAddress)
	// optional warm start: a fixed prefix of transactions, executed like any other
	pre := &st39{y: y, v: v}
	for _, name := range prefix {
		found := false
		for i, m := range y.menu {
			if m == name {
				pre.apply(i)
				found = true
			}
		}
		if !found {
			panic("unknown prefix operation " + name)
		}
	}
	if sg, d := pre.check(); sg != "" {
		panic("start state violates: " + sg + " " + d)
	}
	y.genesis = w.clone() // a frozen copy: shared by all instances, never written
	y.pool = &vmPool{cfg: cfg}
	y.memo = newMemo(8192)
	return y
}

func (y *sys39) init() *st39 { return &st39{y: y} }

type snap39 struct {
	w       *world
	lowered bool
	pending int
	last    string
}

// ensure materialises the state of the recorded history on the real contracts.
func (s *st39) ensure() {
	if s.v != nil {
		return
	}
	y := s.y
	n := len(s.hist)
	start := 0
	var w *world
	for p := n; p > 0 && w == nil; p-- {
		if sn, ok := y.memo.get(s.hist[:p]).(*snap39); ok {
			w, s.lowered, s.pending, s.last, start = sn.w.clone(), sn.lowered, sn.pending, sn.last, p
		}
	}
	if w == nil {
		w = y.genesis.clone()
	}
	s.v = y.pool.get(w)
	for i := start; i < n; i++ {
		s.apply(int(s.hist[i]))
		if i+1 >= n-1 {
			y.memo.put(s.hist[:i+1], &snap39{w: s.v.w.clone(), lowered: s.lowered, pending: s.pending, last: s.last})
		}
	}
}

func (s *st39) close() {
	if s.v != nil {
		s.y.pool.put(s.v)
		s.v = nil
	}
}

// do records the operation; it is executed when the state is observed (or at once when the
// instance is already materialised).
func (s *st39) do(o int) (string, string) {
	s.hist = append(s.hist, byte(o))
	if s.v != nil {
		s.apply(o)
	}
	return "", ""
}

func (s *st39) staked(k int) *ssc.StakedDataV2_0 {
	raw := s.v.w.get(vm.StakingSCAddress, string(s.y.keys[k]))
	if len(raw) == 0 {
		return nil
	}
	d := &ssc.StakedDataV2_0{}
	must(protoMarsh.Unmarshal(d, raw))
	return d
}

func (s *st39) stakingV2On() bool { return s.v.w.epoch >= s.y.cfg.enable.StakingV2EnableEpoch }

func (s *st39) enabled(o int) bool {
	s.ensure()
	op := s.y.ops[o]
	if s.pending > 0 {
		// inside the end-of-epoch step of systemSCProcessor: no user transaction interleaves
		return op.kind == "endOfEpochUnStake" || op.kind == "stakeNodesFromQueue"
	}
	switch op.kind {
	case "stakeNodesFromQueue":
		return false
	case "endOfEpochUnStake":
		// systemSCProcessor only runs unStakeNodesWithNotEnoughFunds + stakeNodesFromQueue
		// when staking v2 is enabled
		return s.stakingV2On()
	case "epoch":
		return s.v.w.epoch < s.y.maxEpoch
	}
	return true
}

func rc(out *vmcommon.VMOutput) string {
	if out.ReturnCode == vmcommon.Ok {
		return "ok"
	}
	return out.ReturnCode.String()
}

func (s *st39) apply(o int) {
	op := s.y.ops[o]
	y := s.y
	var out *vmcommon.VMOutput
	extra := ""
	switch op.kind {
	case "stake":
		// the owner pays the node price unless the key is already active (staked or queued)
		val := bi(1000)
		if d := s.staked(op.k); d != nil && (d.Staked || d.Waiting) {
			val = bi(0)
		}
		out = s.v.call(y.owner(op.k), vm.ValidatorSCAddress, "stake", val, big.NewInt(1).Bytes(), y.keys[op.k], []byte("sig"))
		if out.ReturnCode == vmcommon.Ok {
			if d := s.staked(op.k); d != nil {
				extra = fmt.Sprintf(":staked=%v,waiting=%v", d.Staked, d.Waiting)
			}
		}
	case "unStake":
		out = s.v.call(y.owner(op.k), vm.ValidatorSCAddress, "unStake", nil, y.keys[op.k])
	case "unStake2":
		out = s.v.call(y.owners[op.k], vm.ValidatorSCAddress, "unStake", nil, y.keys[op.k*2], y.keys[op.k*2+1])
		extra = fmt.Sprintf(":%d", len(out.ReturnData))
	case "unBond":
		out = s.v.call(y.owner(op.k), vm.ValidatorSCAddress, "unBond", nil, y.keys[op.k])
		extra = fmt.Sprintf(":%d", len(out.ReturnData))
	case "unJail":
		out = s.v.call(y.owner(op.k), vm.ValidatorSCAddress, "unJail", bi(10), y.keys[op.k])
		extra = fmt.Sprintf(":%d", len(out.ReturnData))
	case "jail":
		out = s.v.call(vm.JailingAddress, vm.StakingSCAddress, "jail", nil, y.keys[op.k])
	case "switchJailedWithWaiting":
		out = s.v.call(vm.EndOfEpochAddress, vm.StakingSCAddress, "switchJailedWithWaiting", nil, y.keys[op.k])
	case "endOfEpochUnStake":
		before := s.staked(op.k)
		out = s.v.call(vm.EndOfEpochAddress, vm.StakingSCAddress, "unStakeAtEndOfEpoch", nil, y.keys[op.k])
		if out.ReturnCode == vmcommon.Ok && before != nil && before.Staked {
			// a node of the validator set was unstaked: systemSCProcessor replaces it from the
			// queue (nodes unstaked from the additional queue are not counted)
			s.pending++
			extra = ":validator"
		}
	case "stakeNodesFromQueue":
		out = s.v.call(vm.EndOfEpochAddress, vm.StakingSCAddress, "stakeNodesFromQueue", nil, big.NewInt(int64(s.pending)).Bytes())
		extra = fmt.Sprintf(":%d:%d", s.pending, len(out.ReturnData)/2)
		s.pending = 0
	case "updateConfigMaxNodes":
		out = s.v.call(vm.EndOfEpochAddress, vm.StakingSCAddress, "updateConfigMaxNodes", nil, big.NewInt(int64(op.k)).Bytes())
		if out.ReturnCode == vmcommon.Ok && len(out.ReturnData) > 0 {
			prev := new(big.Int).SetBytes(out.ReturnData[0]).Int64()
			if int64(op.k) < prev {
				s.lowered = true
				extra = ":lowered"
			}
		}
	case "resetLastUnJailedFromQueue", "cleanAdditionalQueue":
		out = s.v.call(vm.EndOfEpochAddress, vm.StakingSCAddress, op.kind, nil)
		extra = fmt.Sprintf(":%d", len(out.ReturnData))
	case "epoch":
		s.v.setEpoch(s.v.w.epoch + 1)
		s.last = "epoch"
		return
	}
	s.last = op.kind + ":" + rc(out) + extra
}

// ---- oracle ------------------------------------------------------------------------------

type view39 struct {
	cfg     *ssc.StakingNodesConfig
	head    *ssc.WaitingList
	walk    []string // element storage keys in list order
	reg     []*ssc.StakedDataV2_0
	nStaked int64
}

func short(k []byte) string {
	p := sscKeys.WaitingElementPrefix
	if bytes.HasPrefix(k, []byte(p)) && len(k) > len(p) {
		return fmt.Sprintf("w_k%d", int(k[len(p)])-0xb0)
	}
	if len(k) == 0 {
		return "-"
	}
	return hex.EncodeToString(k[:min(len(k), 4)])
}

func (s *st39) view() *view39 {
	w := s.v.w
	v := &view39{}
	v.cfg = &ssc.StakingNodesConfig{}
	raw := w.get(vm.StakingSCAddress, sscKeys.NodesConfig)
	if len(raw) == 0 {
		panic("nodesConfig missing")
	}
	must(protoMarsh.Unmarshal(v.cfg, raw))
	v.head = &ssc.WaitingList{}
	if raw = w.get(vm.StakingSCAddress, sscKeys.WaitingListHead); len(raw) > 0 {
		must(protoMarsh.Unmarshal(v.head, raw))
	}
	for i := range s.y.keys {
		d := s.staked(i)
		v.reg = append(v.reg, d)
		if d != nil && d.Staked {
			v.nStaked++
		}
	}
	return v
}

func (s *st39) dump(v *view39) string {
	var sb strings.Builder
	fmt.Fprintf(&sb, "cfg=%s start=[%s] epoch=%d config{Staked:%d Jailed:%d Min:%d Max:%d} head{First:%s Last:%s Len:%d LastJailed:%s}",
		s.y.cfg.name, s.y.start, s.v.w.epoch, v.cfg.StakedNodes, v.cfg.JailedNodes, v.cfg.MinNumNodes, v.cfg.MaxNumNodes,
		short(v.head.FirstKey), short(v.head.LastKey), v.head.Length, short(v.head.LastJailedKey))
	for i := range s.y.keys {
		raw := s.v.w.get(vm.StakingSCAddress, sscKeys.WaitingElementPrefix+string(s.y.keys[i]))
		if len(raw) > 0 {
			e := &ssc.ElementInList{}
			must(protoMarsh.Unmarshal(e, raw))
			fmt.Fprintf(&sb, " w_k%d{prev:%s next:%s}", i+1, short(e.PreviousKey), short(e.NextKey))
		}
	}
	for i, d := range v.reg {
		if d == nil {
			fmt.Fprintf(&sb, " k%d:unregistered", i+1)
		} else {
			fmt.Fprintf(&sb, " k%d{staked:%v waiting:%v jailed:%v numJailed:%d}", i+1, d.Staked, d.Waiting, d.Jailed, d.NumJailed)
		}
	}
	return sb.String()
}

func (s *st39) check() (string, string) {
	s.ensure()
	v := s.view()
	w := s.v.w
	fail := func(sig, what string) (string, string) {
		return "C39:" + sig, what + " | " + s.dump(v)
	}
	// (1) the waiting list is a well-formed doubly linked list whose Length, FirstKey, LastKey
	// match its elements. Convention of the contract (removeFromWaitingList relies on it):
	// the first element's PreviousKey is its own key, the last element's NextKey is empty.
	inList := map[string]int{}
	if v.head.Length == 0 {
		if len(v.head.FirstKey) != 0 || len(v.head.LastKey) != 0 || len(v.head.LastJailedKey) != 0 {
			return fail("empty-list-with-markers", "Length is 0 but First/Last/LastJailed key is set")
		}
	} else {
		cur := v.head.FirstKey
		var prev []byte
		for i := 0; ; i++ {
			if i >= int(v.head.Length) {
				return fail("list-longer-than-length", fmt.Sprintf("walk from FirstKey does not end after Length=%d elements", v.head.Length))
			}
			if _, dup := inList[string(cur)]; dup {
				return fail("list-cycle", "walk from FirstKey visits "+short(cur)+" twice")
			}
			raw := w.get(vm.StakingSCAddress, string(cur))
			if len(raw) == 0 {
				return fail("list-link-to-missing-element", fmt.Sprintf("element %s (position %d) is not stored", short(cur), i))
			}
			e := &ssc.ElementInList{}
			must(protoMarsh.Unmarshal(e, raw))
			if !bytes.Equal([]byte(sscKeys.WaitingElementPrefix+string(e.BLSPublicKey)), cur) {
				return fail("element-key-mismatch", "element stored under "+short(cur)+" carries another BLS key")
			}
			if i == 0 {
				if !bytes.Equal(e.PreviousKey, cur) {
					return fail("previous-link-broken", "first element's PreviousKey is "+short(e.PreviousKey)+", not its own key")
				}
			} else if bytes.Equal(e.PreviousKey, cur) {
				// the stale "I am the first element" self-reference of an element that is not first
				return fail("previous-link-broken:non-first-element-points-to-itself", fmt.Sprintf("element %s has PreviousKey %s but follows %s", short(cur), short(e.PreviousKey), short(prev)))
			} else if !bytes.Equal(e.PreviousKey, prev) {
				return fail("previous-link-broken", fmt.Sprintf("element %s has PreviousKey %s but follows %s", short(cur), short(e.PreviousKey), short(prev)))
			}
			inList[string(cur)] = i
			v.walk = append(v.walk, string(cur))
			if len(e.NextKey) == 0 {
				break
			}
			prev = cur
			cur = e.NextKey
		}
		if len(v.walk) != int(v.head.Length) {
			return fail("length-mismatch", fmt.Sprintf("walk visits %d elements, Length=%d", len(v.walk), v.head.Length))
		}
		if !bytes.Equal([]byte(v.walk[len(v.walk)-1]), v.head.LastKey) {
			return fail("last-key-mismatch", "walk ends at "+short([]byte(v.walk[len(v.walk)-1]))+", LastKey="+short(v.head.LastKey))
		}
		// (2) the last-jailed marker is empty or designates an element of the list
		if len(v.head.LastJailedKey) != 0 {
			if _, ok := inList[string(v.head.LastJailedKey)]; !ok {
				return fail("last-jailed-key-not-in-list", "LastJailedKey="+short(v.head.LastJailedKey)+" is not an element of the list")
			}
		}
	}
	// (3) keys in the list == registered keys marked as waiting
	for i, d := range v.reg {
		_, in := inList[sscKeys.WaitingElementPrefix+string(s.y.keys[i])]
		waiting := d != nil && d.Waiting
		if in && !waiting {
			return fail("queued-key-not-marked-waiting", fmt.Sprintf("k%d is in the waiting list but its record is missing or has Waiting=false", i+1))
		}
		if !in && waiting {
			return fail("waiting-key-not-in-queue", fmt.Sprintf("k%d has Waiting=true but is not in the waiting list", i+1))
		}
	}
	if len(inList) > len(s.y.keys) {
		return fail("queued-key-not-marked-waiting", "the list holds a key that was never registered")
	}
	// (4) StakedNodes == number of keys marked as staked
	if v.cfg.StakedNodes != v.nStaked {
		return fail("staked-counter-differs-from-staked-keys", fmt.Sprintf("StakedNodes=%d, keys with Staked=true: %d", v.cfg.StakedNodes, v.nStaked))
	}
	// (5) StakedNodes <= MaxNumNodes unless the maximum was lowered in this history
	if !s.lowered && v.cfg.StakedNodes > v.cfg.MaxNumNodes {
		return fail("staked-nodes-above-maximum", fmt.Sprintf("StakedNodes=%d > MaxNumNodes=%d and the maximum was never lowered", v.cfg.StakedNodes, v.cfg.MaxNumNodes))
	}
	return "", ""
}

func (s *st39) key() string {
	s.ensure()
	var sb strings.Builder
	s.v.w.canon(&sb)
	fmt.Fprintf(&sb, "|low=%v|pend=%d", s.lowered, s.pending)
	return sb.String()
}

// non-trivial: the waiting list is non-empty; distinguished by its shape (length, position of
// the last-jailed marker, staked count, jailed keys).
func (s *st39) nontrivial() string {
	s.ensure()
	v := s.view()
	if v.head.Length == 0 {
		return ""
	}
	j := "-"
	if len(v.head.LastJailedKey) > 0 {
		j = short(v.head.LastJailedKey)
	}
	return fmt.Sprintf("%s/%s L%d J%s F%s S%d", s.y.cfg.name, s.y.start, v.head.Length, j, short(v.head.FirstKey), v.cfg.StakedNodes)
}

func configs39(c *mc.Ctx) []*sysConfig {
	mk := func(name string, min uint32, max uint64, v2, clu uint32) *sysConfig {
		return &sysConfig{name: name, minNodes: min, maxNodes: max, unBondNonc: 10, enable: config.EnableEpochs{
			StakeEnableEpoch:                   0,
			StakingV2EnableEpoch:               v2,
			CorrectLastUnjailedEnableEpoch:     clu,
			DoubleKeyProtectionEnableEpoch:     0,
			DelegationManagerEnableEpoch:       0,
			DelegationSmartContractEnableEpoch: 0,
			UnbondTokensV2EnableEpoch:          v2,
			ValidatorToDelegationEnableEpoch:   never,
			ReDelegateBelowMinCheckEnableEpoch: 0,
			SwitchJailWaitingEnableEpoch:       0,
		}}
	}
	cs := []*sysConfig{
		mk("min1-max2/stakingV2@0,correctLastUnjailed@0", 1, 2, 0, 0),
		mk("min1-max2/stakingV2@0,correctLastUnjailed@1", 1, 2, 0, 1),
		mk("min1-max2/stakingV2@1,correctLastUnjailed@1", 1, 2, 1, 1),
		mk("min1-max2/stakingV2@never,correctLastUnjailed@never", 1, 2, never, never),
	}
	if !c.Quick() {
		cs = append(cs,
			mk("min1-max2/stakingV2@0,correctLastUnjailed@never", 1, 2, 0, never),
			mk("min2-max2/stakingV2@0,correctLastUnjailed@0", 2, 2, 0, 0),
			mk("min2-max2/stakingV2@0,correctLastUnjailed@1", 2, 2, 0, 1),
		)
	}
	return cs
}

func runC39(c *mc.Ctx) {
	maxEpoch := uint32(2)
	cfgs := configs39(c)
	// warm starts are fixed prefixes of real transactions, so the bounded search spends its
	// depth on queue manipulation instead of on filling the queue:
	//  warm  (4 keys): the maximum (2) is filled and two more keys are queued
	//  pair  (5 keys): additionally two validators were jailed out (switchJailedWithWaiting
	//        moved k3, k4 in), k5 is queued: the only way to reach an insertion after the
	//        last-jailed marker in the middle of the queue (needs a fifth key)
	warm := []string{"stake(k1)", "stake(k2)", "stake(k3)", "stake(k4)"}
	pair := []string{"stake(k1)", "stake(k2)", "stake(k3)", "stake(k4)", "stake(k5)", "switchJailedWithWaiting(k1)", "switchJailedWithWaiting(k2)"}
	c.Rule = "non-trivial = a reached state whose waiting list is non-empty, counted per distinct (config, start, Length, LastJailedKey, FirstKey, StakedNodes)"
	c.Assumptions = []string{
		"driver = production wiring (NewVMContext + NewSystemSCFactory.Create + NewSystemVM, GogoProtoMarshalizer) over a map world; a transaction's VMOutput is applied iff its return code is Ok",
		"user operations enter through the validator contract (stake/unStake/unBond/unJail by the key's owner; owners hold keys (k1,k2), (k3,k4), (k5); the owner pays the node price 1000 with stake unless the key is already staked or queued; unJail pays the unJail price); protocol operations call the staking contract with the protocol addresses",
		"stakeNodesFromQueue follows the production caller (systemSCProcessor with the correct-num-nodes-to-stake rule): it is issued only as the end of an end-of-epoch step, with n = number of nodes whose Staked flag unStakeAtEndOfEpoch cleared in that step, no user transaction interleaves, and the step exists only while staking v2 is enabled; the staking contract itself does not bound n",
		"'well-formed doubly linked list' uses the contract's own convention: first element's PreviousKey = its own key, last element's NextKey empty; 'last-jailed marker matches' = LastJailedKey empty or an element of the list",
		"'unless that maximum was lowered' = a successful updateConfigMaxNodes(n) with n below the previous maximum occurred earlier in the history (sticky)",
		"peer accounts (validator statistics) are absent: CanUnJail/IsBadRating/IsValidator are false; block nonce = 10*epoch+5, staking unbond period 10 nonces / 1 epoch, so an epoch event elapses the unbonding period",
		"three start states per configuration: genesis; genesis + stake(k1..k4) (2 staked, 2 queued); genesis + stake(k1..k5) + switchJailedWithWaiting(k1), (k2) (k3,k4 staked, k1,k2 jailed out, k5 queued) - fixed prefixes of real transactions, i.e. histories of length prefix+depth",
	}
	var systems []*sys39
	for i, cfg := range cfgs {
		var dCold, dWarm, dPair int
		switch {
		case *depthFlag > 0:
			dCold, dWarm, dPair = *depthFlag, *depthFlag, *depthFlag
		case c.Quick():
			dCold, dWarm, dPair = 5, 4, 3
		case i == 0: // the configuration with every feature enabled from epoch 0
			dCold, dWarm, dPair = 7, 6, 5
		case i < 4:
			dCold, dWarm, dPair = 6, 5, 4
		default:
			dCold, dWarm, dPair = 5, 5, 4
		}
		systems = append(systems, newSys39(cfg, 4, maxEpoch, nil, dCold), newSys39(cfg, 4, maxEpoch, warm, dWarm), newSys39(cfg, 5, maxEpoch, pair, dPair))
	}
	if len(c.ReplayData) > 0 {
		replayNames(c, func(names []string) {
			for _, y := range systems {
				runNames(c, names, y.menu, y.cfg.name, func() (func(int) (string, string), func(int) bool) {
					s := y.init()
					s.ensure()
					return func(o int) (string, string) {
						if sg, d := s.do(o); sg != "" {
							return sg, d
						}
						return s.check()
					}, s.enabled
				})
			}
		})
		return
	}
	complete := true
	var bounds []string
	for _, y := range systems {
		y := y
		st := mc.BFS(c, mc.Sys[*st39]{
			Init:       y.init,
			Menu:       y.menu,
			Enabled:    func(s *st39, o int) bool { return s.enabled(o) },
			Do:         func(s *st39, o int) (string, string) { return s.do(o) },
			Check:      func(s *st39) (string, string) { return s.check() },
			Key:        func(s *st39) string { return s.key() },
			Nontrivial: func(s *st39) string { return s.nontrivial() },
			Outcome:    func(s *st39) string { s.ensure(); return s.last },
			Close:      func(s *st39) { s.close() },
		}, y.depth)
		tag := y.cfg.name + " start=[" + y.start + "]"
		c.Set("states["+tag+"]", st.States)
		c.Set("transitions["+tag+"]", st.Transitions)
		bounds = append(bounds, fmt.Sprintf("%s: depth %d", tag, st.Depth))
		if st.Depth < y.depth && !st.Fixpoint {
			complete = false
		}
	}
	c.Set("menu", systems[0].menu)
	c.Set("searches", bounds)
	if complete {
		c.Bound = fmt.Sprintf("all histories over the menu of %d operations (4 BLS keys, 2 owners; %d with 5 keys, 3 owners; epochs 0..%d) with state matching, %d searches = %d (min/max nodes, feature-epoch) configurations x {from genesis, from 2 staked + 2 queued, from 2 staked + 2 jailed out + 1 queued}; depths %d/%d/%d for the first configuration, per search in coverage.searches", len(systems[0].menu), len(systems[2].menu), maxEpoch, len(systems), len(cfgs), systems[0].depth, systems[1].depth, systems[2].depth)
	} else {
		c.Bound = "search stopped before the depth bound"
	}
}
