package main

// C38 - delegation contract bookkeeping stays consistent.
//
// One delegation contract is created through the delegation manager at genesis (owner
// deposit 10 = the minimum, service fee 0, no cap, no nodes). Histories of delegate /
// unDelegate / withdraw / claimRewards / reDelegateRewards by the owner and two delegators,
// changeServiceFee by the owner, and the epoch event (with the end-of-epoch updateRewards
// transaction carrying the epoch's rewards) are enumerated. After every transaction the
// oracle decodes the contract's storage and evaluates exactly the clauses of the statement;
// the two cumulative clauses use ghost totals measured from the transactions' own outputs.

import (
	"bytes"
	"fmt"
	"math/big"
	"strings"

	"github.com/ElrondNetwork/elrond-go/config"
	"github.com/ElrondNetwork/elrond-go/vm"
	ssc "github.com/ElrondNetwork/elrond-go/vm/systemSmartContracts"
	vmcommon "github.com/ElrondNetwork/elrond-vm-common"
	"verif/engine/mc"
)

type op38 struct {
	name  string
	kind  string
	actor int
	amt   int64 // amount; -1 = "all" for unDelegate, -1 = no updateRewards for epoch
}

type sys38 struct {
	cfg      *sysConfig
	pool     *vmPool
	memo     *memo
	genesis  *world
	dsc      []byte // address of the delegation contract
	actors   [][]byte
	names    []string
	maxEpoch uint32
	menu     []string
	ops      []op38
	depth    int
	rewards  []int64
}

type st38 struct {
	y    *sys38
	hist []byte // operations recorded so far (see memo in world.go)
	v    *sysVM // nil until the state is materialised
	// ghost totals, measured from transaction inputs/outputs (not from contract storage)
	undelegated *big.Int // sum of values of successful unDelegate transactions
	withdrawn   *big.Int // sum paid to delegators by successful withdraw transactions
	received    *big.Int // sum of the call values of successful updateRewards transactions
	paid        *big.Int // sum paid out by claimRewards + sum re-delegated by reDelegateRewards
	last        string
	nt          string
	// stale: some delegator re-created its active fund while its rewards checkpoint still lay
	// before reward records of epochs in which it had no active fund (only narrows the
	// signature of a rewards violation, never the verdict)
	stale bool
}

var fundActive, fundUnStaked = ssc.VerifSysscFundTypes()

func newSys38(cfg *sysConfig, nActors int, maxEpoch uint32, rewards []int64) *sys38 {
	y := &sys38{cfg: cfg, maxEpoch: maxEpoch, rewards: rewards}
	y.actors = [][]byte{userAddr(0xa0), userAddr(0xd1), userAddr(0xd2)}[:nActors]
	y.names = []string{"owner", "D1", "D2"}[:nActors]
	add := func(o op38) {
		y.menu = append(y.menu, o.name)
		y.ops = append(y.ops, o)
	}
	for a, n := range y.names {
		for _, v := range []int64{9, 10, 20} {
			add(op38{fmt.Sprintf("delegate(%s,%d)", n, v), "delegate", a, v})
		}
		for _, v := range []int64{9, 10, -1} {
			nm := fmt.Sprintf("unDelegate(%s,%d)", n, v)
			if v < 0 {
				nm = fmt.Sprintf("unDelegate(%s,all)", n)
			}
			add(op38{nm, "unDelegate", a, v})
		}
		add(op38{fmt.Sprintf("withdraw(%s)", n), "withdraw", a, 0})
		add(op38{fmt.Sprintf("claimRewards(%s)", n), "claimRewards", a, 0})
		add(op38{fmt.Sprintf("reDelegateRewards(%s)", n), "reDelegateRewards", a, 0})
	}
	for _, r := range rewards {
		nm := fmt.Sprintf("epoch+1,updateRewards(%d)", r)
		if r < 0 {
			nm = "epoch+1"
		}
		add(op38{nm, "epoch", 0, r})
	}
	for _, f := range []int64{0, 5000} {
		add(op38{fmt.Sprintf("changeServiceFee(%d)", f), "changeServiceFee", 0, f})
	}

	w := newWorld()
	v := newSysVM(cfg, w)
	v.deploy(vm.StakingSCAddress)
	v.deploy(vm.ValidatorSCAddress)
	v.deploy(vm.DelegationManagerSCAddress)
	out := v.call(y.actors[0], vm.DelegationManagerSCAddress, "createNewDelegationContract", bi(10), []byte{}, []byte{})
	if out.ReturnCode != vmcommon.Ok || len(out.ReturnData) == 0 {
		panic("createNewDelegationContract failed: " + out.ReturnMessage)
	}
	y.dsc = out.ReturnData[len(out.ReturnData)-1]
	if len(w.storage[string(y.dsc)]) == 0 {
		panic("delegation contract has no storage after creation")
	}
	y.genesis = w.clone() // a frozen copy: shared by all instances, never written
	y.pool = &vmPool{cfg: cfg}
	y.memo = newMemo(8192)
	return y
}

func (y *sys38) init() *st38 {
	return &st38{y: y, undelegated: new(big.Int), withdrawn: new(big.Int), received: new(big.Int), paid: new(big.Int)}
}

type snap38 struct {
	w                                      *world
	undelegated, withdrawn, received, paid *big.Int
	last, nt                               string
	stale                                  bool
}

func (s *st38) snapshot() *snap38 {
	return &snap38{w: s.v.w.clone(), undelegated: new(big.Int).Set(s.undelegated), withdrawn: new(big.Int).Set(s.withdrawn),
		received: new(big.Int).Set(s.received), paid: new(big.Int).Set(s.paid), last: s.last, nt: s.nt, stale: s.stale}
}

// ensure materialises the state of the recorded history on the real contracts.
func (s *st38) ensure() {
	if s.v != nil {
		return
	}
	y := s.y
	n := len(s.hist)
	start := 0
	var w *world
	for p := n; p > 0 && w == nil; p-- {
		if sn, ok := y.memo.get(s.hist[:p]).(*snap38); ok {
			w, start = sn.w.clone(), p
			s.last, s.nt, s.stale = sn.last, sn.nt, sn.stale
			s.undelegated.Set(sn.undelegated)
			s.withdrawn.Set(sn.withdrawn)
			s.received.Set(sn.received)
			s.paid.Set(sn.paid)
		}
	}
	if w == nil {
		w = y.genesis.clone()
	}
	s.v = y.pool.get(w)
	for i := start; i < n; i++ {
		s.apply(int(s.hist[i]))
		if i+1 >= n-1 {
			y.memo.put(s.hist[:i+1], s.snapshot())
		}
	}
}

func (s *st38) close() {
	if s.v != nil {
		s.y.pool.put(s.v)
		s.v = nil
	}
}

// do records the operation; it is executed when the state is observed (or at once when the
// instance is already materialised).
func (s *st38) do(o int) (string, string) {
	s.hist = append(s.hist, byte(o))
	if s.v != nil {
		s.apply(o)
	}
	return "", ""
}

func (s *st38) delegator(a int) *ssc.DelegatorData {
	raw := s.v.w.get(s.y.dsc, string(s.y.actors[a]))
	if len(raw) == 0 {
		return nil
	}
	d := &ssc.DelegatorData{}
	must(protoMarsh.Unmarshal(d, raw))
	return d
}

func (s *st38) fund(key []byte) *ssc.Fund {
	raw := s.v.w.get(s.y.dsc, string(key))
	if len(raw) == 0 {
		return nil
	}
	f := &ssc.Fund{}
	must(protoMarsh.Unmarshal(f, raw))
	if f.Value == nil {
		f.Value = new(big.Int)
	}
	return f
}

func (s *st38) activeValue(a int) *big.Int {
	d := s.delegator(a)
	if d == nil || len(d.ActiveFund) == 0 {
		return new(big.Int)
	}
	f := s.fund(d.ActiveFund)
	if f == nil {
		return new(big.Int)
	}
	return new(big.Int).Set(f.Value)
}

// staleCheckpoint reports whether delegator a has a record without active fund whose rewards
// checkpoint lies at or before an epoch that has a reward record.
func (s *st38) staleCheckpoint(a int) bool {
	d := s.delegator(a)
	if d == nil || len(d.ActiveFund) != 0 {
		return false
	}
	for e := d.RewardsCheckpoint; e <= s.v.w.epoch; e++ {
		if len(s.v.w.get(s.y.dsc, string(ssc.VerifSysscRewardKey(e)))) > 0 {
			return true
		}
	}
	return false
}

func (s *st38) enabled(o int) bool {
	s.ensure()
	if s.y.ops[o].kind == "epoch" {
		return s.v.w.epoch < s.y.maxEpoch
	}
	return true
}

func (s *st38) apply(o int) {
	op := s.y.ops[o]
	y := s.y
	s.nt = ""
	var out *vmcommon.VMOutput
	extra := ""
	who := []byte(nil)
	if op.actor < len(y.actors) {
		who = y.actors[op.actor]
	}
	switch op.kind {
	case "delegate":
		wasStale := s.staleCheckpoint(op.actor)
		out = s.v.call(who, y.dsc, "delegate", bi(op.amt))
		if out.ReturnCode != vmcommon.Ok && op.amt < 10 {
			s.nt = "delegate-below-minimum-rejected"
		}
		if d := s.delegator(op.actor); out.ReturnCode == vmcommon.Ok && wasStale && d != nil && d.RewardsCheckpoint <= s.v.w.epoch {
			s.stale = true
		}
	case "unDelegate":
		val := bi(op.amt)
		if op.amt < 0 {
			val = s.activeValue(op.actor)
		}
		before := s.activeValue(op.actor)
		out = s.v.call(who, y.dsc, "unDelegate", nil, val.Bytes())
		if out.ReturnCode == vmcommon.Ok {
			s.undelegated.Add(s.undelegated, val)
			if val.Cmp(before) < 0 {
				s.nt = "partial-undelegate"
			}
		} else if before.Sign() > 0 && val.Sign() > 0 && val.Cmp(before) < 0 {
			s.nt = "undelegate-leaving-dust-or-below-minimum-rejected"
		}
	case "withdraw":
		out = s.v.call(who, y.dsc, "withdraw", nil)
		if out.ReturnCode == vmcommon.Ok {
			got := received(out, who)
			s.withdrawn.Add(s.withdrawn, got)
			if got.Sign() > 0 {
				extra = ":paid"
				s.nt = fmt.Sprintf("withdraw-after-unbonding-period:%s:e%d", y.names[op.actor], s.v.w.epoch)
			} else {
				extra = ":nothing"
			}
		}
	case "claimRewards":
		out = s.v.call(who, y.dsc, "claimRewards", nil)
		if out.ReturnCode == vmcommon.Ok {
			got := received(out, who)
			s.paid.Add(s.paid, got)
			if got.Sign() > 0 {
				extra = ":paid"
				s.nt = "rewards-claimed:" + y.names[op.actor]
			} else {
				extra = ":zero"
			}
		}
	case "reDelegateRewards":
		wasStale := s.staleCheckpoint(op.actor)
		out = s.v.call(who, y.dsc, "reDelegateRewards", nil)
		if d := s.delegator(op.actor); out.ReturnCode == vmcommon.Ok && wasStale && d != nil && d.RewardsCheckpoint <= s.v.w.epoch {
			s.stale = true
		}
		if out.ReturnCode == vmcommon.Ok {
			// the re-delegated rewards leave the delegation contract towards the validator
			// contract as the call value of its stake call
			got := received(out, vm.ValidatorSCAddress)
			s.paid.Add(s.paid, got)
			s.nt = "rewards-redelegated:" + y.names[op.actor]
		}
	case "changeServiceFee":
		out = s.v.call(y.actors[0], y.dsc, "changeServiceFee", nil, big.NewInt(op.amt).Bytes())
	case "epoch":
		s.v.setEpoch(s.v.w.epoch + 1)
		s.last = "epoch"
		if op.amt < 0 {
			return
		}
		// the epoch-start block: the protocol hands the epoch's rewards to the contract
		out = s.v.call(vm.EndOfEpochAddress, y.dsc, "updateRewards", bi(op.amt))
		if out.ReturnCode == vmcommon.Ok {
			s.received.Add(s.received, bi(op.amt))
		}
	}
	s.last = op.kind + ":" + rc(out) + extra
}

// ---- oracle ------------------------------------------------------------------------------

func (s *st38) dump() string {
	var sb strings.Builder
	w := s.v.w
	fmt.Fprintf(&sb, "cfg=%s epoch=%d", s.y.cfg.name, w.epoch)
	if raw := w.get(s.y.dsc, sscKeys.ServiceFee); true {
		fmt.Fprintf(&sb, " serviceFee=%v/10000", new(big.Int).SetBytes(raw))
	}
	if raw := w.get(s.y.dsc, sscKeys.GlobalFund); len(raw) > 0 {
		g := &ssc.GlobalFundData{}
		must(protoMarsh.Unmarshal(g, raw))
		fmt.Fprintf(&sb, " global{TotalActive:%v TotalUnStaked:%v}", g.TotalActive, g.TotalUnStaked)
	}
	for a, n := range s.y.names {
		d := s.delegator(a)
		if d == nil {
			fmt.Fprintf(&sb, " %s:none", n)
			continue
		}
		fmt.Fprintf(&sb, " %s{checkpoint:%d unclaimed:%v active:", n, d.RewardsCheckpoint, d.UnClaimedRewards)
		if len(d.ActiveFund) == 0 {
			sb.WriteString("-")
		} else if f := s.fund(d.ActiveFund); f != nil {
			fmt.Fprintf(&sb, "%v", f.Value)
		} else {
			sb.WriteString("MISSING")
		}
		sb.WriteString(" unstaked:[")
		for _, k := range d.UnStakedFunds {
			if f := s.fund(k); f != nil {
				fmt.Fprintf(&sb, "%v@e%d ", f.Value, f.Epoch)
			} else {
				sb.WriteString("MISSING ")
			}
		}
		sb.WriteString("]}")
	}
	fmt.Fprintf(&sb, " ghost{undelegated:%v withdrawn:%v rewardsReceived:%v rewardsPaid:%v} contractBalance:%v",
		s.undelegated, s.withdrawn, s.received, s.paid, w.bal(s.y.dsc))
	return sb.String()
}

func (s *st38) check() (string, string) {
	s.ensure()
	w := s.v.w
	fail := func(sig, what string) (string, string) { return "C38:" + sig, what + " | " + s.dump() }
	raw := w.get(s.y.dsc, sscKeys.GlobalFund)
	if len(raw) == 0 {
		panic("global fund data missing")
	}
	g := &ssc.GlobalFundData{}
	must(protoMarsh.Unmarshal(g, raw))
	if g.TotalActive == nil {
		g.TotalActive = new(big.Int)
	}
	if g.TotalUnStaked == nil {
		g.TotalUnStaked = new(big.Int)
	}
	sumActive, sumUnStaked := new(big.Int), new(big.Int)
	seen := map[string]string{}
	for a, n := range s.y.names {
		d := s.delegator(a)
		if d == nil {
			continue
		}
		ref := func(key []byte, wantType uint32, what string) (string, string, *ssc.Fund) {
			if prev, dup := seen[string(key)]; dup {
				sg, dt := fail("fund-referenced-twice", fmt.Sprintf("fund %q referenced by %s and by %s (%s)", key, prev, n, what))
				return sg, dt, nil
			}
			seen[string(key)] = n
			f := s.fund(key)
			if f == nil {
				sg, dt := fail("delegator-references-missing-fund", fmt.Sprintf("%s references %s fund %q which does not exist", n, what, key))
				return sg, dt, nil
			}
			if f.Type != wantType || !bytes.Equal(f.Address, s.y.actors[a]) {
				sg, dt := fail("referenced-fund-has-wrong-type-or-owner", fmt.Sprintf("%s references %s fund %q with type %d owner %x", n, what, key, f.Type, f.Address[:min(2, len(f.Address))]))
				return sg, dt, nil
			}
			return "", "", f
		}
		if len(d.ActiveFund) > 0 {
			sg, dt, f := ref(d.ActiveFund, fundActive, "active")
			if sg != "" {
				return sg, dt
			}
			sumActive.Add(sumActive, f.Value)
		}
		for _, k := range d.UnStakedFunds {
			sg, dt, f := ref(k, fundUnStaked, "unstaked")
			if sg != "" {
				return sg, dt
			}
			sumUnStaked.Add(sumUnStaked, f.Value)
		}
	}
	if g.TotalActive.Cmp(sumActive) != 0 {
		return fail("total-active-differs-from-sum-of-active-funds", fmt.Sprintf("TotalActive=%v, sum of delegators' active funds=%v", g.TotalActive, sumActive))
	}
	if g.TotalUnStaked.Cmp(sumUnStaked) != 0 {
		return fail("total-unstaked-differs-from-sum-of-unstaked-funds", fmt.Sprintf("TotalUnStaked=%v, sum of delegators' unstaked funds=%v", g.TotalUnStaked, sumUnStaked))
	}
	if s.withdrawn.Cmp(s.undelegated) > 0 {
		return fail("withdrawn-exceeds-undelegated", fmt.Sprintf("paid out by withdrawals %v > undelegated %v", s.withdrawn, s.undelegated))
	}
	if s.paid.Cmp(s.received) > 0 {
		sig := "rewards-paid-exceed-rewards-received"
		if s.stale {
			sig += ":after-delegator-without-active-fund-kept-old-rewards-checkpoint"
		}
		return fail(sig, fmt.Sprintf("rewards paid (claimed + re-delegated) %v > rewards received %v", s.paid, s.received))
	}
	// harness self-check of the money flows the ghost totals rely on: the contract's balance
	// is exactly rewards received minus rewards paid (stakes are forwarded to the validator
	// contract, withdrawals pass through).
	if want := new(big.Int).Sub(s.received, s.paid); w.bal(s.y.dsc).Cmp(want) != 0 {
		panic(fmt.Sprintf("harness self-check: delegation contract balance %v != received-paid %v | %s", w.bal(s.y.dsc), want, s.dump()))
	}
	return "", ""
}

func (s *st38) key() string {
	s.ensure()
	var sb strings.Builder
	s.v.w.canon(&sb)
	// only the slack of the cumulative clauses can influence future verdicts
	fmt.Fprintf(&sb, "|u-w=%v|r-p=%v|stale=%v", new(big.Int).Sub(s.undelegated, s.withdrawn), new(big.Int).Sub(s.received, s.paid), s.stale)
	return sb.String()
}

func config38(name string, redelegCheck, unbondV2 uint32) *sysConfig {
	return &sysConfig{name: name, minNodes: 1, maxNodes: 10, unBondNonc: 10, enable: config.EnableEpochs{
		StakeEnableEpoch:                   0,
		StakingV2EnableEpoch:               0,
		CorrectLastUnjailedEnableEpoch:     0,
		DoubleKeyProtectionEnableEpoch:     0,
		DelegationManagerEnableEpoch:       0,
		DelegationSmartContractEnableEpoch: 0,
		UnbondTokensV2EnableEpoch:          unbondV2,
		ValidatorToDelegationEnableEpoch:   never,
		ReDelegateBelowMinCheckEnableEpoch: redelegCheck,
	}}
}

func runC38(c *mc.Ctx) {
	cfgOn := config38("reDelegateBelowMinCheck@0,unbondTokensV2@0", 0, 0)
	cfgOff := config38("reDelegateBelowMinCheck@never,unbondTokensV2@never", never, never)
	var systems []*sys38
	add := func(cfg *sysConfig, nActors int, maxEpoch uint32, rewards []int64, depth int) {
		y := newSys38(cfg, nActors, maxEpoch, rewards)
		y.depth = depth
		if *depthFlag > 0 {
			y.depth = *depthFlag
		}
		systems = append(systems, y)
	}
	if c.Quick() {
		add(cfgOn, 2, 2, []int64{-1, 7, 1000}, 6)
	} else {
		add(cfgOn, 3, 3, []int64{-1, 0, 7, 1000}, 6)
		add(cfgOn, 2, 3, []int64{-1, 7, 1000}, 7)
		add(cfgOff, 2, 2, []int64{-1, 7, 1000}, 6)
	}
	c.Rule = "non-trivial = a step that exercises a boundary of the statement: a withdraw paying out after the unbonding period elapsed (per delegator and epoch), a delegate below the minimum rejected, an unDelegate rejected for leaving dust / below the minimum, a partial unDelegate, rewards claimed or re-delegated (per delegator)"
	c.Assumptions = []string{
		"driver = production wiring (NewVMContext + NewSystemSCFactory.Create + NewSystemVM, GogoProtoMarshalizer) over a map world; a transaction's VMOutput is applied iff its return code is Ok; account balances are tracked but not enforced (see next)",
		"the delegation contract's balance equals rewards received minus rewards paid (checked as a harness self-check in every state), so 'rewards paid > rewards received' is the same event as 'the contract answers Ok to a payout its balance cannot cover'; on a full node the account layer would then revert that transaction (and an honest delegator's later claim instead) - the contract's bookkeeping is what is judged here",
		"one delegation contract created through the delegation manager: owner deposit 10 (= minimum creation deposit = minimum delegation), service fee 0 (changeServiceFee 0/5000 of 10000), no delegation cap, no nodes added (stake stays as top-up on the validator contract); node price 1000; unbonding period 1 epoch",
		"the epoch event is the epoch-start block: epoch+1, contracts' feature flags re-evaluated, then (optionally) the protocol's updateRewards transaction with that epoch's rewards - at most one per epoch, before any user transaction of the epoch, as the protocol does",
		"total undelegated = sum of the values of successful unDelegate transactions; paid by withdrawals / claims = what the delegator nets in the transaction's output; re-delegated rewards = what the validator contract nets in a reDelegateRewards transaction; rewards received = call values of successful updateRewards",
		"delegators are the owner and the listed user accounts only; 'funds that exist' = the referenced fund key is stored, with the matching type and owner, and referenced once",
	}
	if len(c.ReplayData) > 0 {
		replayNames(c, func(names []string) {
			for _, y := range systems {
				runNames(c, names, y.menu, y.cfg.name, func() (func(int) (string, string), func(int) bool) {
					s := y.init()
					s.ensure()
					return func(o int) (string, string) {
						if sg, d := s.do(o); sg != "" {
							return sg, d
						}
						return s.check()
					}, s.enabled
				})
			}
		})
		return
	}
	complete := true
	var bounds []string
	for _, y := range systems {
		y := y
		st := mc.BFS(c, mc.Sys[*st38]{
			Init:       y.init,
			Menu:       y.menu,
			Enabled:    func(s *st38, o int) bool { return s.enabled(o) },
			Do:         func(s *st38, o int) (string, string) { return s.do(o) },
			Check:      func(s *st38) (string, string) { return s.check() },
			Key:        func(s *st38) string { return s.key() },
			Nontrivial: func(s *st38) string { s.ensure(); return s.nt },
			Outcome:    func(s *st38) string { s.ensure(); return s.last },
			Close:      func(s *st38) { s.close() },
		}, y.depth)
		tag := fmt.Sprintf("%s, %d delegators incl. owner, menu of %d, epochs 0..%d, rewards %v", y.cfg.name, len(y.actors), len(y.menu), y.maxEpoch, y.rewards)
		c.Set("states["+tag+"]", st.States)
		c.Set("transitions["+tag+"]", st.Transitions)
		bounds = append(bounds, fmt.Sprintf("all histories of <= %d operations: %s", st.Depth, tag))
		if st.Depth < y.depth && !st.Fixpoint {
			complete = false
		}
	}
	c.Set("menu", systems[0].menu)
	c.Set("searches", bounds)
	if complete {
		c.Bound = strings.Join(bounds, " || ") + " (amounts: delegate 9/10/20, unDelegate 9/10/all; -1 = epoch without rewards; state matching)"
	} else {
		c.Bound = "search stopped before the depth bound"
	}
}
