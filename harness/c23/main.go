// Harness c23 — C23: move-balance transactions conserve value and advance the nonce once.
//
// Seam: the REAL process/transaction.NewTxProcessor over the REAL state.AccountsDB (real
// patricia-merkle trie, in-memory DBs), REAL economics.NewEconomicsData, REAL
// coordinator.NewTxTypeHandler (no built-in functions), REAL postprocess.NewFeeAccumulator,
// real 1-shard coordinator; stub scProcessor (IsPayable == true) and stub forwarders that
// collect bad transactions / receipts.
//
// Space: explicit-state, level-by-level search over sequences of transactions. For every
// configuration (3 flag settings x initial balance of A x initial balance of B; C absent)
// and every reachable ledger state, every transaction of the alphabet
//
//	sender, receiver in {A,B,C} (incl. sender==receiver) x value kind x nonce in
//	{acc-1, acc, acc+1} x gasLimit in {move, move+1} x gasPrice in {min, 2*min}
//
// is run on the real processor. Values are relative to the sender's current balance (see
// valueKinds). A transaction that returns an error other than ErrFailedTransaction is
// followed by RevertToSnapshot(journal length before it), exactly like
// preprocess.transactions.createAndProcessMiniBlocksFromMe does around
// processAndRemoveBadTransaction. Transactions of one sequence are processed without Commit
// in between (as inside one block).
//
// Deviation from DESIGN.md §3.5 (the design is a plan): the literal product of the design
// (540^3 x 48 sequences) does not fit any budget, so sequences are merged by state: two
// histories that lead to the same accounts-trie root hash are extended once (the shallowest,
// first in enumeration order). A rejected transaction leaves the state unchanged (this is
// checked: balances, nonces and trie root) and therefore is never a proper prefix.
// Backtracking between sibling transactions of one state uses AccountsDB.RevertToSnapshot and
// is verified by comparing the trie root hash with the one before the sibling.
package main

import (
	"bytes"
	"encoding/json"
	"errors"
	"flag"
	"fmt"
	"math/big"
	"os"
	"runtime/debug"
	"sort"
	"strings"
	"sync"
	"time"

	logger "github.com/ElrondNetwork/elrond-go-logger"
	"github.com/ElrondNetwork/elrond-go/config"
	"github.com/ElrondNetwork/elrond-go/core/pubkeyConverter"
	"github.com/ElrondNetwork/elrond-go/data"
	"github.com/ElrondNetwork/elrond-go/data/block"
	"github.com/ElrondNetwork/elrond-go/data/receipt"
	"github.com/ElrondNetwork/elrond-go/data/state"
	"github.com/ElrondNetwork/elrond-go/data/state/factory"
	"github.com/ElrondNetwork/elrond-go/data/state/storagePruningManager"
	"github.com/ElrondNetwork/elrond-go/data/state/storagePruningManager/evictionWaitingList"
	"github.com/ElrondNetwork/elrond-go/data/transaction"
	"github.com/ElrondNetwork/elrond-go/data/trie"
	"github.com/ElrondNetwork/elrond-go/data/trie/hashesHolder"
	"github.com/ElrondNetwork/elrond-go/hashing/blake2b"
	"github.com/ElrondNetwork/elrond-go/marshal"
	"github.com/ElrondNetwork/elrond-go/process"
	"github.com/ElrondNetwork/elrond-go/process/block/postprocess"
	"github.com/ElrondNetwork/elrond-go/process/coordinator"
	"github.com/ElrondNetwork/elrond-go/process/economics"
	"github.com/ElrondNetwork/elrond-go/process/mock"
	"github.com/ElrondNetwork/elrond-go/process/smartContract"
	txproc "github.com/ElrondNetwork/elrond-go/process/transaction"
	"github.com/ElrondNetwork/elrond-go/sharding"
	"github.com/ElrondNetwork/elrond-go/storage/memorydb"
	"github.com/ElrondNetwork/elrond-go/vm/systemSmartContracts/defaults"
	vmcommon "github.com/ElrondNetwork/elrond-vm-common"
	"github.com/ElrondNetwork/elrond-vm-common/parsers"
	"verif/engine/mc"
)

// ---------------------------------------------------------------- fixed parameters

const (
	minGasPrice    = 1000000000 // main-net values
	minGasLimit    = 50000
	gasPerDataByte = 1500
	gasModifier    = 0.01
	maxGasPerBlock = 1500000000
	genesisSupply  = "20000000000000000000000000"
	currentEpoch   = 5
)

var (
	names = []string{"A", "B", "C"}
	addrs = [][]byte{bytes.Repeat([]byte{0xA1}, 32), bytes.Repeat([]byte{0xB2}, 32), bytes.Repeat([]byte{0xC3}, 32)}

	hasher      = blake2b.NewBlake2b()
	marshalizer = &marshal.GogoProtoMarshalizer{}

	baseFee = new(big.Int).Mul(big.NewInt(minGasPrice), big.NewInt(minGasLimit)) // move fee at min price
)

type flagSet struct {
	Name                         string
	Penalize, Modifier, MetaProt bool
}

// the node configures economicsData and txProcessor from the same enable-epoch values, so the
// penalize flag of both objects is always set together
var flagSets = []flagSet{
	{"flags-off", false, false, false},
	{"penalizeTooMuchGas", true, false, false},
	{"penalize+gasPriceModifier+metaProtection", true, true, true},
}

// initial balances, in units of baseFee (+ offset)
type balSpec struct {
	Name string
	Mul  int64
	Add  int64
}

var balSpecs = []balSpec{{"0", 0, 0}, {"fee", 1, 0}, {"fee+1", 1, 1}, {"10fee", 10, 0}}

func (b balSpec) value() *big.Int {
	v := new(big.Int).Mul(baseFee, big.NewInt(b.Mul))
	return v.Add(v, big.NewInt(b.Add))
}

type cfg struct {
	Flags int
	BalA  int
	BalB  int
}

func (c cfg) String() string {
	return fmt.Sprintf("%s A=%s B=%s C=absent", flagSets[c.Flags].Name, balSpecs[c.BalA].Name, balSpecs[c.BalB].Name)
}

// ---------------------------------------------------------------- alphabet

// value kinds, relative to the sender's balance before the transaction; cost = gasLimit*gasPrice
// (the most the sender can be charged), moveFee = minimum gas * gasPrice
var valueKinds = []string{"0", "1", "bal-cost", "bal-cost+1", "bal-moveFee", "bal-moveFee+1", "bal+1"}
var nonceKinds = []string{"acc-1", "acc", "acc+1"}
var gasLimitKinds = []string{"move", "move+1"}
var gasPriceKinds = []string{"min", "2min"}

type op struct {
	S, R, V, N, GL, GP int
}

func (o op) String() string {
	return fmt.Sprintf("%s>%s v=%s n=%s gl=%s gp=%s", names[o.S], names[o.R], valueKinds[o.V], nonceKinds[o.N], gasLimitKinds[o.GL], gasPriceKinds[o.GP])
}

func buildMenu(core bool) []op {
	var m []op
	for s := 0; s < 3; s++ {
		for r := 0; r < 3; r++ {
			for v := range valueKinds {
				for n := range nonceKinds {
					for gl := range gasLimitKinds {
						for gp := range gasPriceKinds {
							if core && (gp != 0 || v == 4 || v == 5) {
								continue
							}
							m = append(m, op{s, r, v, n, gl, gp})
						}
					}
				}
			}
		}
	}
	return m
}

// ---------------------------------------------------------------- stubs

type scStub struct{ ifErr int }

func (s *scStub) ExecuteSmartContractTransaction(data.TransactionHandler, state.UserAccountHandler, state.UserAccountHandler) (vmcommon.ReturnCode, error) {
	panic("scProcessor.ExecuteSmartContractTransaction reached by a move-balance transaction")
}
func (s *scStub) ExecuteBuiltInFunction(data.TransactionHandler, state.UserAccountHandler, state.UserAccountHandler) (vmcommon.ReturnCode, error) {
	panic("scProcessor.ExecuteBuiltInFunction reached by a move-balance transaction")
}
func (s *scStub) DeploySmartContract(data.TransactionHandler, state.UserAccountHandler) (vmcommon.ReturnCode, error) {
	panic("scProcessor.DeploySmartContract reached by a move-balance transaction")
}
func (s *scStub) ProcessIfError(state.UserAccountHandler, []byte, data.TransactionHandler, string, []byte, int, uint64) error {
	s.ifErr++
	return nil
}
func (s *scStub) IsPayable([]byte) (bool, error) { return true, nil }
func (s *scStub) IsInterfaceNil() bool           { return s == nil }

type collector struct{ txs []data.TransactionHandler }

func (c *collector) AddIntermediateTransactions(txs []data.TransactionHandler) error {
	c.txs = append(c.txs, txs...)
	return nil
}
func (c *collector) GetNumOfCrossInterMbsAndTxs() (int, int)                      { return 0, 0 }
func (c *collector) CreateAllInterMiniBlocks() []*block.MiniBlock                 { return nil }
func (c *collector) VerifyInterMiniBlocks(*block.Body) error                      { return nil }
func (c *collector) SaveCurrentIntermediateTxToStorage() error                    { return nil }
func (c *collector) GetAllCurrentFinishedTxs() map[string]data.TransactionHandler { return nil }
func (c *collector) CreateBlockStarted()                                          { c.txs = nil }
func (c *collector) GetCreatedInShardMiniBlock() *block.MiniBlock                 { return nil }
func (c *collector) RemoveProcessedResultsFor([][]byte)                           {}
func (c *collector) IsInterfaceNil() bool                                         { return c == nil }

// ---------------------------------------------------------------- world

type acct struct {
	Exists bool
	Bal    *big.Int
	Nonce  uint64
}

type ledger [3]acct

func (l ledger) clone() ledger {
	var r ledger
	for i := range l {
		r[i] = acct{l[i].Exists, new(big.Int).Set(l[i].Bal), l[i].Nonce}
	}
	return r
}

func (l ledger) String() string {
	var sb strings.Builder
	for i, a := range l {
		if i > 0 {
			sb.WriteByte(' ')
		}
		if !a.Exists {
			fmt.Fprintf(&sb, "%s=absent", names[i])
		} else {
			fmt.Fprintf(&sb, "%s={bal %s nonce %d}", names[i], a.Bal, a.Nonce)
		}
	}
	return sb.String()
}

func (l ledger) sum() *big.Int {
	s := new(big.Int)
	for _, a := range l {
		s.Add(s, a.Bal)
	}
	return s
}

type processor interface {
	process.TransactionProcessor
	EpochConfirmed(epoch uint32, timestamp uint64)
}

type world struct {
	cfg      cfg
	adb      *state.AccountsDB
	tsm      data.StorageManager
	proc     processor
	econ     process.FeeHandler
	fees     process.TransactionFeeHandler
	sc       *scStub
	badTxs   *collector
	receipts *collector
	scrs     *collector

	total    *big.Int // initial sum of balances
	pathFees *big.Int // fees accumulated by the transactions of the current path
	led      ledger   // reference ledger == last observed state (checked after every step)
}

func must(err error) {
	if err != nil {
		panic(err)
	}
}

func enableEpoch(on bool) uint32 {
	if on {
		return 0
	}
	return 10
}

func newWorld(c cfg) *world {
	fs := flagSets[c.Flags]
	db := memorydb.New()
	tcfg := config.TrieStorageManagerConfig{PruningBufferLen: 1000, SnapshotsBufferLen: 10, MaxSnapshots: 2}
	tsm, err := trie.NewTrieStorageManager(trie.NewTrieStorageManagerArgs{
		DB: db, Marshalizer: marshalizer, Hasher: hasher,
		SnapshotDbConfig:       config.DBConfig{Type: "MemoryDB"},
		GeneralConfig:          tcfg,
		CheckpointHashesHolder: hashesHolder.NewCheckpointHashesHolder(10000000, uint64(hasher.Size())),
	})
	must(err)
	tr, err := trie.NewTrie(tsm, marshalizer, hasher, 5)
	must(err)
	ewl, err := evictionWaitingList.NewEvictionWaitingList(100, memorydb.New(), marshalizer)
	must(err)
	spm, err := storagePruningManager.NewStoragePruningManager(ewl, tcfg.PruningBufferLen)
	must(err)
	adb, err := state.NewAccountsDB(tr, hasher, marshalizer, factory.NewAccountCreator(), spm)
	must(err)

	bc, err := economics.NewBuiltInFunctionsCost(&economics.ArgsBuiltInFunctionCost{
		GasSchedule: mock.NewGasScheduleNotifierMock(defaults.FillGasMapInternal(map[string]map[string]uint64{}, 1)),
		ArgsParser:  smartContract.NewArgumentParser(),
	})
	must(err)
	econ, err := economics.NewEconomicsData(economics.ArgsNewEconomicsData{
		BuiltInFunctionsCostHandler: bc,
		Economics: &config.EconomicsConfig{
			GlobalSettings: config.GlobalSettings{GenesisTotalSupply: genesisSupply, MinimumInflation: 0,
				YearSettings: []*config.YearSetting{{Year: 0, MaximumInflation: 0.01}}},
			RewardsSettings: config.RewardsSettings{RewardsConfigByEpoch: []config.EpochRewardSettings{{
				LeaderPercentage: 0.1, DeveloperPercentage: 0.1, ProtocolSustainabilityPercentage: 0.1,
				ProtocolSustainabilityAddress: "erd1932eft30w753xyvme8d49qejgkjc09n5e49w4mwdjtm0neld797su0dlxp",
				TopUpGradientPoint:            "300000000000000000000", TopUpFactor: 0.25, EpochEnable: 0}}},
			FeeSettings: config.FeeSettings{MaxGasLimitPerBlock: fmt.Sprint(maxGasPerBlock), MaxGasLimitPerMetaBlock: fmt.Sprint(maxGasPerBlock),
				MinGasPrice: fmt.Sprint(minGasPrice), MinGasLimit: fmt.Sprint(minGasLimit), GasPerDataByte: fmt.Sprint(gasPerDataByte), GasPriceModifier: gasModifier},
		},
		EpochNotifier:                  &mock.EpochNotifierStub{},
		PenalizedTooMuchGasEnableEpoch: enableEpoch(fs.Penalize),
		GasPriceModifierEnableEpoch:    enableEpoch(fs.Modifier),
	})
	must(err)
	econ.EpochConfirmed(currentEpoch, 0)

	shardC, err := sharding.NewMultiShardCoordinator(1, 0)
	must(err)
	pkc, err := pubkeyConverter.NewBech32PubkeyConverter(32)
	must(err)
	tth, err := coordinator.NewTxTypeHandler(coordinator.ArgNewTxTypeHandler{
		PubkeyConverter: pkc, ShardCoordinator: shardC, BuiltInFuncNames: map[string]struct{}{},
		ArgumentParser: parsers.NewCallArgsParser(), RelayedTxV2EnableEpoch: 0, EpochNotifier: &mock.EpochNotifierStub{},
	})
	must(err)
	fees, err := postprocess.NewFeeAccumulator()
	must(err)

	w := &world{cfg: c, adb: adb, tsm: tsm, econ: econ, fees: fees, sc: &scStub{},
		badTxs: &collector{}, receipts: &collector{}, scrs: &collector{}, pathFees: new(big.Int)}
	proc, err := txproc.NewTxProcessor(txproc.ArgsNewTxProcessor{
		Accounts: adb, Hasher: hasher, PubkeyConv: pkc, Marshalizer: marshalizer, SignMarshalizer: &marshal.JsonMarshalizer{},
		ShardCoordinator: shardC, ScProcessor: w.sc, TxFeeHandler: fees, TxTypeHandler: tth, EconomicsFee: econ,
		ReceiptForwarder: w.receipts, BadTxForwarder: w.badTxs, ArgsParser: smartContract.NewArgumentParser(), ScrForwarder: w.scrs,
		RelayedTxEnableEpoch: 0, RelayedTxV2EnableEpoch: 0,
		PenalizedTooMuchGasEnableEpoch: enableEpoch(fs.Penalize), MetaProtectionEnableEpoch: enableEpoch(fs.MetaProt),
		EpochNotifier: &mock.EpochNotifierStub{},
	})
	must(err)
	proc.EpochConfirmed(currentEpoch, 0)
	w.proc = proc

	// genesis: A and B exist with their initial balance (possibly 0), C does not exist
	for i, spec := range []balSpec{balSpecs[c.BalA], balSpecs[c.BalB]} {
		acc, err := adb.LoadAccount(addrs[i])
		must(err)
		ua := acc.(state.UserAccountHandler)
		must(ua.AddToBalance(spec.value()))
		must(adb.SaveAccount(ua))
	}
	_, err = adb.Commit()
	must(err)
	w.led = w.observe()
	w.total = w.led.sum()
	return w
}

func (w *world) close() {
	_ = w.adb.Close()
	_ = w.tsm.Close()
}

// observe reads balances and nonces back through the public API.
func (w *world) observe() ledger {
	var l ledger
	for i := range names {
		l[i].Bal = new(big.Int)
		acc, err := w.adb.GetExistingAccount(addrs[i])
		if err == state.ErrAccNotFound {
			continue
		}
		must(err)
		ua := acc.(state.UserAccountHandler)
		l[i] = acct{true, new(big.Int).Set(ua.GetBalance()), ua.GetNonce()}
	}
	return l
}

func (w *world) root() string {
	rh, err := w.adb.RootHash()
	must(err)
	return string(rh)
}

// concretize builds the transaction of an alphabet letter in the current state; ok == false
// when the letter does not exist here (negative value, nonce below 0) or duplicates an
// earlier letter's transaction (same concrete fields).
func (w *world) concretize(o op) (*transaction.Transaction, bool) {
	snd := w.led[o.S]
	gl := uint64(minGasLimit + o.GL)
	gp := uint64(minGasPrice * (1 + o.GP))
	cost := new(big.Int).Mul(new(big.Int).SetUint64(gl), new(big.Int).SetUint64(gp))
	moveFee := new(big.Int).Mul(big.NewInt(minGasLimit), new(big.Int).SetUint64(gp))
	var v *big.Int
	switch o.V {
	case 0:
		v = big.NewInt(0)
	case 1:
		v = big.NewInt(1)
	case 2:
		v = new(big.Int).Sub(snd.Bal, cost)
	case 3:
		v = new(big.Int).Sub(snd.Bal, cost)
		v.Add(v, big.NewInt(1))
	case 4:
		v = new(big.Int).Sub(snd.Bal, moveFee)
	case 5:
		v = new(big.Int).Sub(snd.Bal, moveFee)
		v.Add(v, big.NewInt(1))
	case 6:
		v = new(big.Int).Add(snd.Bal, big.NewInt(1))
	}
	if v.Sign() < 0 {
		return nil, false
	}
	n := snd.Nonce
	switch o.N {
	case 0:
		if n == 0 {
			return nil, false
		}
		n--
	case 2:
		n++
	}
	return &transaction.Transaction{Nonce: n, Value: v, SndAddr: append([]byte{}, addrs[o.S]...), RcvAddr: append([]byte{}, addrs[o.R]...),
		GasPrice: gp, GasLimit: gl, ChainID: []byte("1"), Version: 1}, true
}

func txKey(tx *transaction.Transaction) string {
	return fmt.Sprintf("%x>%x n%d v%s gl%d gp%d", tx.SndAddr[:1], tx.RcvAddr[:1], tx.Nonce, tx.Value, tx.GasLimit, tx.GasPrice)
}

func txJSON(tx *transaction.Transaction) map[string]interface{} {
	who := func(a []byte) string {
		for i := range addrs {
			if bytes.Equal(a, addrs[i]) {
				return names[i]
			}
		}
		return "?"
	}
	return map[string]interface{}{"sender": who(tx.SndAddr), "receiver": who(tx.RcvAddr), "nonce": tx.Nonce, "value": tx.Value.String(),
		"gasLimit": tx.GasLimit, "gasPrice": tx.GasPrice}
}

// stepResult is what one processed transaction looked like.
type stepResult struct {
	class    string // success | charged-failure | rejected | panic
	err      error
	fee      *big.Int // delta of the fee accumulator
	post     ledger
	receipts []string // receipts emitted by this transaction: "<data-class>:<value>"
	badTx    int
	panicMsg string
}

// apply runs one transaction exactly like the block processor does and observes the result.
// It does NOT judge.
func (w *world) apply(tx *transaction.Transaction) stepResult {
	var r stepResult
	j := w.adb.JournalLen()
	feesPre := w.fees.GetAccumulatedFees()
	nr, nb := len(w.receipts.txs), len(w.badTxs.txs)
	var err error
	if p := mc.Try(func() { _, err = w.proc.ProcessTransaction(tx) }); p != "" {
		r.class, r.panicMsg = "panic", p
		_ = w.adb.RevertToSnapshot(j)
		r.post = w.observe()
		r.fee = new(big.Int)
		return r
	}
	r.err = err
	switch {
	case err == nil:
		r.class = "success"
	case errors.Is(err, process.ErrFailedTransaction):
		r.class = "charged-failure"
	default:
		r.class = "rejected"
		// transactions.createAndProcessMiniBlocksFromMe: bad tx -> revert to the snapshot taken before it
		must(w.adb.RevertToSnapshot(j))
	}
	r.fee = new(big.Int).Sub(w.fees.GetAccumulatedFees(), feesPre)
	r.post = w.observe()
	for _, t := range w.receipts.txs[nr:] {
		rc := t.(*receipt.Receipt)
		d := string(rc.Data)
		if d != txproc.RefundGasMessage {
			d = "error"
		}
		r.receipts = append(r.receipts, d+":"+rc.Value.String())
	}
	r.badTx = len(w.badTxs.txs) - nb
	return r
}

type finding struct {
	sig  string
	what string
}

// judge evaluates the oracle of C23 for one transaction processed in ledger state pre.
func (w *world) judge(tx *transaction.Transaction, o op, pre ledger, r stepResult) []finding {
	var fs []finding
	add := func(sig, format string, a ...interface{}) { fs = append(fs, finding{sig, fmt.Sprintf(format, a...)}) }
	if r.class == "panic" {
		add("panic", "%s", r.panicMsg)
		return fs
	}
	snd, rcv := o.S, o.R
	// (1) conservation: sum of all balances + fees collected == initial total
	fees := new(big.Int).Add(w.pathFees, r.fee)
	if got := new(big.Int).Add(r.post.sum(), fees); got.Cmp(w.total) != 0 {
		add("conservation:balances-plus-collected-fees-changed:"+r.class, "sum(balances)+fees = %s, initial total %s (fee delta %s)", got, w.total, r.fee)
	}
	// fees of this transaction as the economics define them
	moveFee := w.econ.ComputeMoveBalanceFee(tx)
	fullFee := w.econ.ComputeTxFee(tx)
	maxCost := new(big.Int).Mul(new(big.Int).SetUint64(tx.GasLimit), new(big.Int).SetUint64(tx.GasPrice))
	feeOK := func() {
		if r.fee.Sign() <= 0 {
			add(r.class+":no-fee-collected", "fee delta %s", r.fee)
		} else if (r.fee.Cmp(moveFee) != 0 && r.fee.Cmp(fullFee) != 0) || r.fee.Cmp(maxCost) > 0 {
			add(r.class+":collected-fee-is-no-fee-of-this-tx", "fee delta %s, move-balance fee %s, tx fee %s, gasLimit*gasPrice %s", r.fee, moveFee, fullFee, maxCost)
		}
	}
	// expected ledger for the observed class
	exp := pre.clone()
	switch r.class {
	case "success":
		feeOK()
		exp[snd].Bal.Sub(exp[snd].Bal, tx.Value)
		exp[snd].Bal.Sub(exp[snd].Bal, r.fee)
		exp[rcv].Bal.Add(exp[rcv].Bal, tx.Value)
		exp[snd].Nonce++
	case "charged-failure":
		feeOK()
		exp[snd].Bal.Sub(exp[snd].Bal, r.fee)
		exp[snd].Nonce++
	case "rejected":
		if r.fee.Sign() != 0 {
			add("rejected:fee-collected", "fee delta %s, error %v", r.fee, r.err)
		}
	}
	for i := range names {
		role := "third-account"
		if i == snd {
			role = "sender"
		} else if i == rcv {
			role = "receiver"
		}
		if r.post[i].Bal.Cmp(exp[i].Bal) != 0 {
			add(r.class+":"+role+"-balance-wrong", "%s balance %s, expected %s (before %s, value %s, fee %s)", names[i], r.post[i].Bal, exp[i].Bal, pre[i].Bal, tx.Value, r.fee)
		}
		if r.post[i].Nonce != exp[i].Nonce {
			add(r.class+":"+role+"-nonce-wrong", "%s nonce %d, expected %d (before %d)", names[i], r.post[i].Nonce, exp[i].Nonce, pre[i].Nonce)
		}
	}
	// (3) which class the reference ledger allows
	bal := pre[snd].Bal
	nonceOK := tx.Nonce == pre[snd].Nonce
	vPlus := func(f *big.Int) *big.Int { return new(big.Int).Add(tx.Value, f) }
	switch {
	case !nonceOK:
		if r.class != "rejected" {
			add("class:wrong-nonce-not-rejected:"+r.class, "tx nonce %d, account nonce %d", tx.Nonce, pre[snd].Nonce)
		}
	case bal.Cmp(moveFee) < 0:
		if r.class != "rejected" {
			add("class:fee-unaffordable-not-rejected:"+r.class, "balance %s < move-balance fee %s", bal, moveFee)
		}
	case flagSets[w.cfg.Flags].Penalize && bal.Cmp(vPlus(fullFee)) >= 0:
		// with the penalize-too-much-gas flag active the sender is charged ComputeTxFee, so a
		// balance covering value + that fee is sufficient: a failure "for insufficient funds"
		// would not be a real one (added after the independent seed C23-1)
		if r.class != "success" {
			add("class:transfer-affordable-at-the-charged-fee-not-executed:"+r.class, "penalize flag on, balance %s >= value %s + ComputeTxFee %s (gasLimit*gasPrice %s); error %v", bal, tx.Value, fullFee, maxCost, r.err)
		}
	case bal.Cmp(vPlus(maxCost)) >= 0:
		if r.class != "success" {
			add("class:affordable-transfer-not-executed:"+r.class, "balance %s >= value %s + gasLimit*gasPrice %s; error %v", bal, tx.Value, maxCost, r.err)
		}
	case bal.Cmp(vPlus(moveFee)) < 0 && bal.Cmp(maxCost) >= 0:
		if r.class != "charged-failure" {
			add("class:insufficient-funds-not-charged-the-fee:"+r.class, "balance %s covers gasLimit*gasPrice %s but not value %s + fee; error %v", bal, maxCost, tx.Value, r.err)
		}
	}
	return fs
}

// ---------------------------------------------------------------- search

type node struct {
	cfg  cfg
	path []op // witness history (each element was charged, i.e. changed the state)
}

type succ struct {
	key  string
	path []op
}

type witness struct {
	Config  string                   `json:"config"`
	History []string                 `json:"history"`
	Txs     []map[string]interface{} `json:"transactions"`
	Before  string                   `json:"ledger_before_last_tx"`
	After   string                   `json:"ledger_after_last_tx"`
	Error   string                   `json:"returned_error"`
	What    string                   `json:"what"`
}

type replayData struct {
	Cfg  cfg  `json:"cfg"`
	Path []op `json:"path"`
}

type searcher struct {
	c    *mc.Ctx
	mu   sync.Mutex
	seen map[string]struct{}
}

// expand replays n.path on a fresh world and runs every letter of menu from there.
func (s *searcher) expand(n node, menu []op, judgeAllPrefix bool) []succ {
	c := s.c
	w := newWorld(n.cfg)
	defer w.close()
	var txs []map[string]interface{}
	var hist []string
	touched := [3]bool{}
	for _, o := range n.path {
		tx, ok := w.concretize(o)
		if !ok {
			c.Fatal("replay of %v in %v: letter %v does not exist", n.path, n.cfg, o)
		}
		pre := w.led
		r := w.apply(tx)
		if judgeAllPrefix {
			s.report(w, n.cfg, n.path[:len(hist)], hist, txs, o, tx, pre, r, w.judge(tx, o, pre, r))
		}
		if r.class != "success" && r.class != "charged-failure" {
			c.Fatal("replay of %v in %v: %v was %s", n.path, n.cfg, o, r.class)
		}
		w.led = r.post
		w.pathFees.Add(w.pathFees, r.fee)
		txs = append(txs, txJSON(tx))
		hist = append(hist, o.String())
		touched[o.S], touched[o.R] = true, true
	}
	var out []succ
	j0 := w.adb.JournalLen()
	root0 := w.root()
	pre := w.led
	done := map[string]struct{}{}
	for _, o := range menu {
		tx, ok := w.concretize(o)
		if !ok {
			continue
		}
		k := txKey(tx)
		if _, dup := done[k]; dup {
			continue
		}
		done[k] = struct{}{}
		r := w.apply(tx)
		c.Eval(1)
		fs := w.judge(tx, o, pre, r)
		s.report(w, n.cfg, n.path, hist, txs, o, tx, pre, r, fs)
		errClass := "nil"
		if r.err != nil {
			errClass = r.err.Error()
			if i := strings.IndexAny(errClass, ",:"); i > 0 {
				errClass = errClass[:i]
			}
		}
		c.Outcome(fmt.Sprintf("%s|%s|receipts=%d|bad=%d|self=%v|newRcv=%v", r.class, errClass, len(r.receipts), r.badTx, o.S == o.R, !pre[o.R].Exists))
		rk := "none"
		if len(r.receipts) > 0 {
			rk = r.receipts[0][:strings.Index(r.receipts[0], ":")]
		}
		c.Count(fmt.Sprintf("outcome:%s|%s|receipt=%s", r.class, errClass, rk), 1)
		charged := r.class == "success" || r.class == "charged-failure"
		if charged && len(n.path) > 0 && (touched[o.S] || touched[o.R]) {
			// non-trivial: a charged transaction whose sender or receiver was modified earlier in the sequence
			c.Nontrivial(fmt.Sprintf("%v|%v|%v", n.cfg, hist, o))
			if c.WantSample() {
				c.Sample(map[string]interface{}{"config": n.cfg.String(), "history": hist, "tx": o.String(), "class": r.class, "before": pre.String(), "after": r.post.String(), "fee": r.fee.String()})
			}
		}
		rootAfter := w.root()
		if r.class == "rejected" || r.class == "panic" {
			if rootAfter != root0 {
				s.report(w, n.cfg, n.path, hist, txs, o, tx, pre, r, []finding{{"rejected:accounts-trie-root-changed", "state root differs after the caller's RevertToSnapshot"}})
				// restore for the siblings
				must(w.adb.RevertToSnapshot(j0))
			}
			continue
		}
		if len(fs) == 0 {
			np := append(append([]op{}, n.path...), o)
			out = append(out, succ{key: fmt.Sprintf("%d/%d/%d|%x", n.cfg.Flags, n.cfg.BalA, n.cfg.BalB, rootAfter), path: np})
		}
		// backtrack to the state before this letter (harness mechanism, verified)
		must(w.adb.RevertToSnapshot(j0))
		if w.root() != root0 {
			c.Fatal("backtracking by RevertToSnapshot did not restore the trie root (config %v history %v letter %v)", n.cfg, hist, o)
		}
		if got := w.observe(); got.String() != pre.String() {
			c.Fatal("backtracking by RevertToSnapshot did not restore the ledger: %s vs %s", got, pre)
		}
	}
	return out
}

func (s *searcher) report(w *world, cf cfg, prefix []op, hist []string, txs []map[string]interface{}, o op, tx *transaction.Transaction, pre ledger, r stepResult, fs []finding) {
	for _, f := range fs {
		errS := "nil"
		if r.err != nil {
			errS = r.err.Error()
		}
		h := append(append([]string{}, hist...), o.String())
		t := append(append([]map[string]interface{}{}, txs...), txJSON(tx))
		s.c.ViolationR(f.sig, len(h)*100000+o.S*30000+o.R*10000+o.V*1000+o.N*100+o.GL*10+o.GP,
			witness{Config: cf.String(), History: h, Txs: t, Before: pre.String(), After: r.post.String(), Error: errS, What: f.what},
			replayData{Cfg: cf, Path: append(append([]op{}, prefix...), o)})
	}
}

func main() {
	_ = logger.SetLogLevel("*:NONE")
	if os.Getenv("GOGC") == "" {
		debug.SetGCPercent(400)
	}
	depthFullFlag := flag.Int("depthfull", 0, "override the number of positions filled from the full alphabet (development aid)")
	depthCoreFlag := flag.Int("depthcore", -1, "override the total sequence length reached with the core alphabet (development aid)")
	mc.Main("C23", "exploration", func(c *mc.Ctx) {
		full := buildMenu(false)
		core := buildMenu(true)
		depthFull := c.Pick(2, 3)
		depthCore := c.Pick(3, 4)
		if *depthFullFlag > 0 {
			depthFull = *depthFullFlag
		}
		if *depthCoreFlag >= 0 {
			depthCore = *depthCoreFlag
		}
		own := time.Now().Add(80 * time.Second)
		if !c.Quick() {
			own = time.Now().Add(14 * time.Minute)
		}
		if own.Before(c.Deadline) {
			c.Deadline = own // an explicit shorter --deadline wins
		}
		c.Rule = "non-trivial = a charged transaction (success or fee-only failure) at position >= 2 of a sequence whose sender or receiver account was modified by an earlier transaction of the sequence (key = configuration + history + letter)"
		c.Assumptions = []string{
			"one shard; accounts A,B exist at genesis with balance in {0, fee, fee+1, 10*fee} (fee = 50000 gas * 10^9), C does not exist; main-net fee settings (minGasPrice 10^9, minGasLimit 50000, gasPriceModifier 0.01); empty data field; scProcessor stub says every address is payable",
			"three flag settings, economicsData and txProcessor always configured alike (as the node does): all off | penalizedTooMuchGas | penalizedTooMuchGas+gasPriceModifier+metaProtection",
			"values are relative to the sender's balance: {0, 1, bal-gasLimit*gasPrice, +1, bal-moveFee, +1, bal+1} (negative ones dropped); nonce in {acc-1 (if acc>0), acc, acc+1}; gasLimit in {50000, 50001}; gasPrice in {10^9, 2*10^9}",
			"a transaction returning an error other than ErrFailedTransaction is followed by RevertToSnapshot(journal length before it) like createAndProcessMiniBlocksFromMe does; the fee accumulator is not reverted (the caller does not revert it either); no Commit between the transactions of a sequence",
			"'the fee' of the statement = the amount added to the fee accumulator by the transaction; it must be > 0, <= gasLimit*gasPrice and equal to economics.ComputeMoveBalanceFee(tx) or ComputeTxFee(tx) (the code collects the former on success and the latter on an insufficient-funds failure; unused gas of a move is refunded, the refund receipt moves no balance)",
			"class demanded by the reference ledger: wrong nonce or balance < move fee => rejected without any change; balance >= value + gasLimit*gasPrice (and right nonce) => success; gasLimit*gasPrice <= balance < value + move fee => fee-only failure; with the penalize flag on, balance >= value + ComputeTxFee => success; in the remaining band (flag off: between value+ComputeTxFee and value+gasLimit*gasPrice, a documented backwards-compatibility rule) any class whose own accounting is exact is accepted",
			"sequences are merged by state (accounts-trie root hash per configuration): a state reached by several histories is extended once; rejected transactions are verified to leave balances, nonces and the trie root unchanged and are therefore not extended; siblings are explored by RevertToSnapshot backtracking whose exactness (root hash, ledger) is verified every time",
		}
		s := &searcher{c: c, seen: map[string]struct{}{}}
		if len(c.ReplayData) > 0 {
			var rd replayData
			if err := json.Unmarshal(c.ReplayData, &rd); err != nil || len(rd.Path) == 0 {
				c.Fatal("bad replay data: %v", err)
			}
			last := rd.Path[len(rd.Path)-1]
			s.expand(node{cfg: rd.Cfg, path: rd.Path[:len(rd.Path)-1]}, []op{last}, true)
			return
		}
		var cfgs []cfg
		for f := range flagSets {
			for a := range balSpecs {
				for b := range balSpecs {
					cfgs = append(cfgs, cfg{f, a, b})
				}
			}
		}
		level := make([]node, len(cfgs))
		for i, cf := range cfgs {
			level[i] = node{cfg: cf}
		}
		maxDepth := depthCore
		if depthFull > maxDepth {
			maxDepth = depthFull
		}
		reached := 0
		var perLevel []string
		for d := 1; d <= maxDepth && len(level) > 0; d++ {
			menu := full
			which := "full"
			if d > depthFull {
				menu, which = core, "core"
			}
			results := make([][]succ, len(level))
			capped := false
			var cm sync.Mutex
			mc.Par(len(level), func(i int) {
				if c.Expired() {
					cm.Lock()
					capped = true
					cm.Unlock()
					return
				}
				results[i] = s.expand(level[i], menu, false)
			})
			if capped {
				c.Cap(fmt.Sprintf("deadline during level %d", d))
				break
			}
			reached = d
			var next []node
			for i := range results {
				for _, su := range results[i] {
					if _, ok := s.seen[su.key]; ok {
						continue
					}
					s.seen[su.key] = struct{}{}
					next = append(next, node{cfg: level[i].cfg, path: su.path})
				}
			}
			perLevel = append(perLevel, fmt.Sprintf("position %d: %d states expanded with the %s alphabet (%d letters), %d new states", d, len(level), which, len(menu), len(next)))
			level = next
		}
		sort.Strings(perLevel)
		c.Set("levels", perLevel)
		c.Set("configurations", len(cfgs))
		c.Bound = fmt.Sprintf("all sequences of <= %d transactions over the full %d-letter alphabet", min(reached, depthFull), len(full))
		if reached > depthFull {
			c.Bound += fmt.Sprintf(", each extended to %d transactions with the further letters from the %d-letter core alphabet (gasPrice=min, values {0,1,bal-cost,bal-cost+1,bal+1})", reached, len(core))
		}
		c.Bound += fmt.Sprintf("; %d configurations; sequences merged by state", len(cfgs))
	})
}
