// C36 — percentage splits of amounts are exact and bounded.
//
// Part A (core.GetIntTrimmedPercentageOfValue): full product amounts x percentages, the
// percentage set containing EVERY serviceFee/maxServiceFee the delegation contract can form
// (0..10000 / 10000 and 0..100 / 100) plus float64 boundary values. Oracle: an independent
// math/big.Rat computation of floor(amount * p) where p is read as the shortest round-trip
// decimal of the float64 (the "decimal scaling" of the property record), 0 <= r <= amount,
// monotone in the amount.
//
// Part B (delegation.computeAndUpdateRewards, real code through an export file, staking-v2
// branch = the GetIntTrimmedPercentageOfValue branch): one epoch of rewards, the owner plus
// two delegators with stakes from an alphabet, every service fee. Oracle: the payouts of all
// participants sum to at most the rewards to distribute and lose less than one unit per
// participant (floors lose dust, never create value); when the owner is the only staker he is
// handed exactly the rewards to distribute (owner part + delegators' pool == rewards).
package main

import (
	"fmt"
	"math"
	"math/big"
	"sort"
	"strconv"
	"sync"

	"github.com/ElrondNetwork/elrond-go/core"
	"github.com/ElrondNetwork/elrond-go/marshal"
	"github.com/ElrondNetwork/elrond-go/vm"
	vmmock "github.com/ElrondNetwork/elrond-go/vm/mock"
	ssc "github.com/ElrondNetwork/elrond-go/vm/systemSmartContracts"
	"verif/engine/mc"
)

// collector keeps per signature the earliest witness in enumeration order, so the reported
// witness is the simplest one and does not depend on goroutine interleaving.
type found struct {
	rank   [2]int64
	detail map[string]interface{}
	count  int64
}

type collector struct {
	mu sync.Mutex
	m  map[string]*found
}

var col = &collector{m: map[string]*found{}}

func (k *collector) add(sig string, rank [2]int64, detail map[string]interface{}) {
	k.mu.Lock()
	defer k.mu.Unlock()
	f := k.m[sig]
	if f == nil {
		k.m[sig] = &found{rank, detail, 1}
		return
	}
	f.count++
	if rank[0] < f.rank[0] || (rank[0] == f.rank[0] && rank[1] < f.rank[1]) {
		f.rank, f.detail = rank, detail
	}
}

func (k *collector) flush(c *mc.Ctx) {
	sigs := []string{}
	for s := range k.m {
		sigs = append(sigs, s)
	}
	sort.Strings(sigs)
	for _, s := range sigs {
		f := k.m[s]
		f.detail["violating_cases_in_this_run"] = f.count
		c.Violation(s, f.detail, nil)
	}
}

func bi(s string) *big.Int {
	v, ok := new(big.Int).SetString(s, 10)
	if !ok {
		panic(s)
	}
	return v
}

func pow2(n uint) *big.Int { return new(big.Int).Lsh(big.NewInt(1), n) }

// amounts, ascending (monotonicity is checked along this order).
func amountAlphabet(thorough bool) []*big.Int {
	a := []*big.Int{}
	for _, s := range []string{"0", "1", "2", "3", "7", "9", "10", "11", "99", "100", "101", "9999", "10000", "10001",
		"999999", "1000000", "1000000000000000000", "1000000000000000001",
		"20000000000000000000000000", "1000000000000000000000000000007"} {
		a = append(a, bi(s))
	}
	a = append(a, new(big.Int).Sub(pow2(64), big.NewInt(1)), pow2(64), new(big.Int).Add(pow2(64), big.NewInt(1)))
	if thorough {
		for i := 0; i <= 60; i++ { // every small amount: all remainders of small denominators
			a = append(a, big.NewInt(int64(i)))
		}
		for _, s := range []string{"123456789", "999999999999", "31415926535897932384626433", "99999999999999999999999999999999999999"} {
			a = append(a, bi(s))
		}
		a = append(a, new(big.Int).Sub(pow2(63), big.NewInt(1)), pow2(63), pow2(128), new(big.Int).Sub(pow2(256), big.NewInt(1)))
	}
	sort.Slice(a, func(i, j int) bool { return a[i].Cmp(a[j]) < 0 })
	out := a[:0]
	for i, v := range a {
		if i == 0 || v.Cmp(a[i-1]) != 0 {
			out = append(out, v)
		}
	}
	return out
}

func pctAlphabet(thorough bool) []float64 {
	set := map[uint64]float64{}
	add := func(p float64) {
		if p >= 0 && p <= 1 && !math.IsNaN(p) {
			set[math.Float64bits(p)] = p
		}
	}
	for k := 0; k <= 10000; k++ { // every value delegation can form with maxServiceFee 10000
		add(float64(uint64(k)) / float64(uint64(10000)))
	}
	for k := 0; k <= 100; k++ {
		add(float64(uint64(k)) / float64(uint64(100)))
	}
	for _, p := range []float64{0, 1, 0.5, 0.1, 0.25, 0.01, 1e-7, 1e-8, 1.0 / 3, 2.0 / 3, 0.999999999, 0.9999999999999999,
		math.Nextafter(1, 0), math.Nextafter(0.1, 0), math.Nextafter(0.1, 1), math.Nextafter(0.5, 0), math.Nextafter(0.5, 1),
		5e-324, math.SmallestNonzeroFloat64 * 3, 2.2250738585072014e-308, 1e-300, 1e-100, 1e-21, 1e-20, 1e-19,
		float64(float32(0.1)), float64(float32(0.01)), float64(float32(1.1)) - 1, 0.30000000000000004, 0.1 + 0.7, 0.07,
		0.000001, 0.123456789012345678} {
		add(p)
	}
	for k := 1; k <= 64; k++ {
		add(math.Ldexp(1, -k))
		add(1 - math.Ldexp(1, -k))
	}
	if thorough {
		for k := 0; k <= 100000; k++ { // five decimal digits
			add(float64(k) / 100000)
		}
		for k := 1; k <= 1000; k++ { // non-terminating binary/decimal fractions
			add(1 / float64(k))
			add(1 - 1/float64(k))
		}
		for k := 0; k <= 1074; k++ { // every binary exponent down to the smallest denormal
			add(math.Ldexp(1, -k))
			add(math.Ldexp(3, -k-2))
		}
	}
	ps := make([]float64, 0, len(set))
	for _, p := range set {
		ps = append(ps, p)
	}
	sort.Float64s(ps)
	return ps
}

// reference: floor(amount * dec(p)), dec(p) = shortest round-trip decimal of p, in big.Rat.
func refDecimal(amount *big.Int, p float64) *big.Int {
	r, ok := new(big.Rat).SetString(strconv.FormatFloat(p, 'e', -1, 64))
	if !ok {
		panic("rat parse")
	}
	n := new(big.Int).Mul(amount, r.Num())
	return n.Div(n, r.Denom())
}

// information only: floor(amount * exact binary value of p).
func refBinary(amount *big.Int, p float64) *big.Int {
	r := new(big.Rat).SetFloat64(p)
	n := new(big.Int).Mul(amount, r.Num())
	return n.Div(n, r.Denom())
}

func partA(c *mc.Ctx) {
	amounts := amountAlphabet(!c.Quick())
	pcts := pctAlphabet(!c.Quick())
	c.Set("partA_amounts", len(amounts))
	c.Set("partA_percentages", len(pcts))
	mc.Par(len(pcts), func(i int) {
		p := pcts[i]
		var prev *big.Int
		var nBin int64
		for j, a := range amounts {
			in := new(big.Int).Set(a)
			var got *big.Int
			if perr := mc.Try(func() { got = core.GetIntTrimmedPercentageOfValue(in, p) }); perr != "" {
				col.add("GetIntTrimmedPercentageOfValue:panic", [2]int64{int64(i), int64(j)}, map[string]interface{}{"amount": a.String(), "p": strconv.FormatFloat(p, 'g', -1, 64), "panic": perr})
				continue
			}
			det := func(want *big.Int) map[string]interface{} {
				return map[string]interface{}{"amount": a.String(), "p": strconv.FormatFloat(p, 'g', -1, 64), "got": fmt.Sprint(got), "want": fmt.Sprint(want)}
			}
			if got == nil {
				col.add("GetIntTrimmedPercentageOfValue:nil-result", [2]int64{int64(i), int64(j)}, det(nil))
				continue
			}
			if in.Cmp(a) != 0 {
				col.add("GetIntTrimmedPercentageOfValue:argument-modified", [2]int64{int64(i), int64(j)}, det(nil))
			}
			want := refDecimal(a, p)
			if got.Cmp(want) != 0 {
				col.add("GetIntTrimmedPercentageOfValue:not-floor-of-amount-times-p", [2]int64{int64(i), int64(j)}, det(want))
			}
			if got.Sign() < 0 || got.Cmp(a) > 0 {
				col.add("GetIntTrimmedPercentageOfValue:out-of-[0,amount]", [2]int64{int64(i), int64(j)}, det(want))
			}
			if prev != nil && got.Cmp(prev) < 0 {
				col.add("GetIntTrimmedPercentageOfValue:not-monotone-in-amount", [2]int64{int64(i), int64(j)}, map[string]interface{}{"amount": a.String(), "smaller_amount": amounts[j-1].String(), "p": strconv.FormatFloat(p, 'g', -1, 64), "got": got.String(), "got_for_smaller": prev.String()})
			}
			prev = got
			if refBinary(a, p).Cmp(want) != 0 {
				nBin++
			}
			// non-trivial: the floor really trims (amount*p is not an integer) and 0 < r < amount
			if got.Sign() > 0 && got.Cmp(a) < 0 {
				r, _ := new(big.Rat).SetString(strconv.FormatFloat(p, 'e', -1, 64))
				if !new(big.Rat).Mul(r, new(big.Rat).SetInt(a)).IsInt() {
					c.Nontrivial(fmt.Sprint("A", a, math.Float64bits(p)))
					if c.WantSample() && j%5 == 3 && i%997 == 11 {
						c.Sample(map[string]interface{}{"amount": a.String(), "p": p, "result": got.String()})
					}
				}
			}
			switch {
			case got.Sign() == 0:
				c.Outcome("A:zero")
			case got.Cmp(a) == 0:
				c.Outcome("A:all")
			default:
				c.Outcome("A:part")
			}
		}
		c.Eval(int64(len(amounts)))
		c.Count("partA_cases", int64(len(amounts)))
		c.Count("info_result_differs_from_exact_binary_reading_of_p", nBin)
	})
}

// ---- part B: the delegation contract's split -------------------------------------------

type world struct {
	store map[string][]byte
	epoch uint32
}

func (w *world) eei() vm.SystemEI {
	hook := &vmmock.BlockChainHookStub{CurrentEpochCalled: func() uint32 { return w.epoch }}
	return &vmmock.SystemEIStub{
		GetStorageCalled:     func(key []byte) []byte { return w.store[string(key)] },
		BlockChainHookCalled: func() vm.BlockchainHook { return hook },
	}
}

func partB(c *mc.Ctx) {
	m := &marshal.GogoProtoMarshalizer{}
	rewards := []*big.Int{big.NewInt(0), big.NewInt(1), big.NewInt(2), big.NewInt(9), big.NewInt(10), big.NewInt(99), big.NewInt(1000003),
		bi("1000000000000000001"), new(big.Int).Sub(pow2(64), big.NewInt(1)), bi("1000000000000000000000000000007")}
	// stakes of (owner, D1, D2); 0 = does not take part
	stakeVecs := [][3]string{{"1", "0", "0"}, {"1250000000000000000000", "0", "0"}, {"1", "1", "1"}, {"0", "1", "2"}, {"3", "7", "0"},
		{"10", "20", "9"}, {"1250000000000000000000", "1000000000000000000", "7"}, {"0", "10", "0"}, {"1", "0", "340282366920938463463374607431768211455"}}
	fees := []uint64{}
	step := uint64(c.Pick(7, 1)) // quick: every 7th fee plus the boundary ones; thorough: all 0..10000
	for f := uint64(0); f <= 10000; f++ {
		if f%step == 0 || f < 20 || f > 9980 || f%1000 <= 1 || f%1000 == 999 {
			fees = append(fees, f)
		}
	}
	c.Set("partB_fees", len(fees))
	c.Set("partB_rewards", len(rewards))
	c.Set("partB_stake_vectors", len(stakeVecs))
	names := [3]string{"owner", "delegator1", "delegator2"}
	mc.Par(len(fees), func(fi int) {
		fee := fees[fi]
		var seq int64
		for _, R := range rewards {
			for _, sv := range stakeVecs {
				c.Eval(1)
				seq++
				c.Count("partB_cases", 1)
				w := &world{store: map[string][]byte{}, epoch: 1}
				w.store[string(ssc.VerifC36OwnerKey())] = []byte(names[0])
				total := big.NewInt(0)
				n := 0
				for k := 0; k < 3; k++ {
					st := bi(sv[k])
					if st.Sign() == 0 {
						continue
					}
					n++
					total.Add(total, st)
					b, _ := m.Marshal(&ssc.Fund{Value: st, Address: []byte(names[k])})
					w.store["fund"+names[k]] = b
				}
				rb, _ := m.Marshal(&ssc.RewardComputationData{RewardsToDistribute: R, TotalActive: total, ServiceFee: fee})
				w.store[string(ssc.VerifC36RewardKey(1))] = rb
				sum := big.NewInt(0)
				pay := map[string]string{}
				bad := false
				for k := 0; k < 3; k++ {
					if bi(sv[k]).Sign() == 0 && k != 0 {
						continue
					}
					dd := &ssc.DelegatorData{RewardsCheckpoint: 1, UnClaimedRewards: big.NewInt(0), TotalCumulatedRewards: big.NewInt(0)}
					if bi(sv[k]).Sign() != 0 {
						dd.ActiveFund = []byte("fund" + names[k])
					}
					var err error
					perr := mc.Try(func() {
						err = ssc.VerifC36ComputeAndUpdateRewards(w.eei(), m, 10000, true, []byte(names[k]), dd)
					})
					if perr != "" || err != nil {
						col.add("delegation-split:error", [2]int64{1<<40 + int64(fi), seq}, map[string]interface{}{"rewards": R.String(), "fee": fee, "stakes": sv, "who": names[k], "err": fmt.Sprint(err), "panic": perr})
						bad = true
						break
					}
					if dd.UnClaimedRewards.Sign() < 0 {
						col.add("delegation-split:negative-payout", [2]int64{1<<40 + int64(fi), seq}, map[string]interface{}{"rewards": R.String(), "fee": fee, "stakes": sv, "who": names[k], "payout": dd.UnClaimedRewards.String()})
					}
					pay[names[k]] = dd.UnClaimedRewards.String()
					sum.Add(sum, dd.UnClaimedRewards)
				}
				if bad {
					continue
				}
				det := map[string]interface{}{"rewards": R.String(), "serviceFee": fee, "stakes(owner,d1,d2)": sv, "payouts": pay, "sum": sum.String()}
				ownerStakes := bi(sv[0]).Sign() != 0
				// An owner without active fund gets nothing from computeAndUpdateRewards (the
				// function returns early); his share stays in the contract, so the sum may be
				// lower by the owner part. Never higher than the rewards.
				if sum.Cmp(R) > 0 {
					col.add("delegation-split:pays-more-than-rewards-to-distribute", [2]int64{1<<40 + int64(fi), seq}, det)
				}
				if ownerStakes {
					lost := new(big.Int).Sub(R, sum)
					if lost.Cmp(big.NewInt(int64(n))) >= 0 {
						col.add("delegation-split:loses-more-than-rounding-dust", [2]int64{1<<40 + int64(fi), seq}, det)
					}
					if n == 1 && sum.Cmp(R) != 0 {
						col.add("delegation-split:owner-part-plus-pool-differs-from-rewards", [2]int64{1<<40 + int64(fi), seq}, det)
					}
					if n >= 2 && R.Sign() > 0 && fee > 0 && fee < 10000 {
						c.Nontrivial(fmt.Sprint("B", R, fee, sv))
					}
				}
				c.Outcome(fmt.Sprint("B:lost", new(big.Int).Sub(R, sum).Cmp(big.NewInt(0)), n))
			}
		}
	})
}

func main() {
	mc.Main("C36", "exploration", func(c *mc.Ctx) {
		c.Rule = "A: full product amounts x percentages on core.GetIntTrimmedPercentageOfValue (percentages: every k/10000 for k=0..10000, every k/100, float64 boundary values, powers of two and complements; thorough adds k/100000, 1/k, every binary exponent to 2^-1074, more amounts). " +
			"B: real delegation.computeAndUpdateRewards (staking-v2 branch) for rewards x service fee x stake vectors of (owner, 2 delegators). " +
			"Non-trivial: A = 0 < result < amount and amount*p not an integer (the floor trims); B = >=2 stakers, rewards > 0, 0 < fee < 10000."
		c.Bound = "A: complete product of the stated alphabets; B: fees " + map[bool]string{true: "every 7th of 0..10000 plus boundary fees", false: "all 0..10000"}[c.Quick()]
		c.Assumptions = []string{
			"'amount times p' reads p as the shortest round-trip decimal of the float64 (strconv 'shortest' digits), which is the decimal scaling the property record names; the count of cases where the exact binary value of p would floor differently is reported as information only",
			"percentages restricted to [0,1] and amounts to >= 0 as in the statement; float64 values outside the enumerated set are not covered",
			"B covers the split of one epoch of rewards with maxServiceFee 10000; an owner without active fund collects nothing in this function (early return), so only 'sum <= rewards' is demanded there",
		}
		partA(c)
		partB(c)
		col.flush(c)
	})
}
