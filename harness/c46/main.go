// C46 — transaction lookup reports the canonical block.
//
// Seam: the real dblookupext.NewHistoryRepository (self shard 0) over in-memory storers
// (testscommon/genericMocks.NewStorerMock; the metadata storer is used through
// PutInEpoch/GetFromEpoch only, i.e. it is epoch-aware; the two index storers never change
// epoch, i.e. they behave like the static storers of the node), real gogo-proto marshalizer
// and blake2b hasher. Every sequence of <= N events from a menu of 12 (records of five
// competing / successive blocks that contain miniblocks m1 and m2, six notarization
// notifications, one empty notification) is replayed on a fresh repository and the lookups
// are compared with a boring reference: "last record wins" + "set of delivered meta blocks".
//
// Reading of the statement fixed here (also in c.Assumptions):
//   - "most recently committed block that contains the miniblock" = the block of the most
//     recent RecordBlock call whose body contains the miniblock. The repository has no
//     roll-back call: a dropped block is simply followed by the record of its competitor.
//   - the lookup is judged after every completed API call (every prefix of every sequence is
//     itself an enumerated sequence; the oracle runs only once, at the end of a sequence, so
//     lookups never influence the history that is judged).
//   - "reports notarization data once the notarizing meta block has been seen, in whichever
//     order" = as soon as both a record of the miniblock and a notification for that side
//     were delivered (after the later of the two calls has returned) the side's
//     nonce/hash are those of a delivered meta block that listed the miniblock on that side
//     (any of them when several were delivered; which one is not promised). Before any
//     notification for a side the side's fields are empty.
//   - looking up a transaction of a miniblock that was never recorded is not judged.
package main

import (
	"bytes"
	"encoding/json"
	"fmt"
	"strings"

	"github.com/ElrondNetwork/elrond-go/core"
	"github.com/ElrondNetwork/elrond-go/core/dblookupext"
	"github.com/ElrondNetwork/elrond-go/data"
	"github.com/ElrondNetwork/elrond-go/data/block"
	"github.com/ElrondNetwork/elrond-go/hashing/blake2b"
	"github.com/ElrondNetwork/elrond-go/marshal"
	"github.com/ElrondNetwork/elrond-go/testscommon/genericMocks"
	"verif/engine/mc"
)

const selfShard = 0

const (
	sideSrc = 0
	sideDst = 1
)

// the two miniblocks: m1 cross-shard 1 -> 0 (two transactions), m2 intra-shard 0 -> 0.
var miniblocks = []*block.MiniBlock{
	{SenderShardID: 1, ReceiverShardID: 0, Type: block.TxBlock, TxHashes: [][]byte{[]byte("tx-m1-a"), []byte("tx-m1-b")}},
	{SenderShardID: 0, ReceiverShardID: 0, Type: block.TxBlock, TxHashes: [][]byte{[]byte("tx-m2-a")}},
}
var mbNames = []string{"m1", "m2"}
var mbHashes [][]byte

type blk struct {
	name  string
	nonce uint64
	round uint64
	epoch uint32
	mbs   []int
}

// A and B compete (same nonce, same epoch, both contain m1); C follows; D and E are the
// re-inclusion of m1 / m2 in the next epoch.
var blocks = []blk{
	{"A", 10, 100, 0, []int{0}},
	{"B", 10, 101, 0, []int{0, 1}},
	{"C", 11, 102, 0, []int{1}},
	{"D", 10, 110, 1, []int{0}},
	{"E", 11, 111, 1, []int{1}},
}

// listing = one entry of a meta block's ShardInfo: shard data of `shard` lists miniblock mb.
type listing struct {
	shard uint32
	mb    int
}
type metaBlk struct {
	name  string
	nonce uint64
	list  []listing
}

// one OnNotarizedBlocks call = a list of meta blocks (possibly empty).
var notifs = [][]metaBlk{
	{{"X1", 1, []listing{{1, 0}}}},                                 // m1 at source (meta nonce 1: lowest accepted nonce)
	{{"X2", 52, []listing{{0, 0}}}},                                // m1 at destination
	{{"X3", 53, []listing{{1, 0}, {0, 0}}}},                        // m1 at source and destination in one meta block
	{{"X4", 54, []listing{{0, 1}}}},                                // m2 (intra-shard: both sides)
	{{"X5", 55, []listing{{0, 0}, {0, 1}}}},                        // shard-0 block with m1 (destination) and m2
	{{"X6", 56, []listing{{1, 0}}}, {"X7", 57, []listing{{0, 1}}}}, // one call, two meta blocks
	{}, // empty notification
}

type event struct {
	name string
	rec  int // block index or -1
	ntf  int // notification index or -1
}

var menu []event

func init() {
	for i, b := range blocks {
		n := []string{}
		for _, m := range b.mbs {
			n = append(n, mbNames[m])
		}
		menu = append(menu, event{fmt.Sprintf("rec%s(e%d:%s)", b.name, b.epoch, strings.Join(n, "+")), i, -1})
	}
	for i, call := range notifs {
		n := []string{}
		for _, mb := range call {
			for _, l := range mb.list {
				n = append(n, fmt.Sprintf("%s:%s@s%d", mb.name, mbNames[l.mb], l.shard))
			}
		}
		name := "ntf(" + strings.Join(n, ",") + ")"
		if len(call) == 0 {
			name = "ntf(empty)"
		}
		menu = append(menu, event{name, -1, i})
	}
}

func blockHash(b blk) []byte    { return []byte("hash-of-block-" + b.name) }
func metaHash(m metaBlk) []byte { return []byte("hash-of-meta-" + m.name) }

func newRepo() dblookupext.HistoryRepository {
	repo, err := dblookupext.NewHistoryRepository(dblookupext.HistoryRepositoryArguments{
		SelfShardID:                 selfShard,
		MiniblocksMetadataStorer:    genericMocks.NewStorerMock("MiniblocksMetadata", 0),
		MiniblockHashByTxHashStorer: genericMocks.NewStorerMock("MiniblockHashByTxHash", 0),
		EpochByHashStorer:           genericMocks.NewStorerMock("EpochByHash", 0),
		EventsHashesByTxHashStorer:  genericMocks.NewStorerMock("EventsHashesByTxHash", 0),
		Marshalizer:                 &marshal.GogoProtoMarshalizer{},
		Hasher:                      blake2b.NewBlake2b(),
	})
	if err != nil {
		panic(err)
	}
	return repo
}

func doRecord(repo dblookupext.HistoryRepository, b blk) error {
	body := &block.Body{}
	for _, m := range b.mbs {
		mb := *miniblocks[m] // fresh copy per call
		body.MiniBlocks = append(body.MiniBlocks, &mb)
	}
	hdr := &block.Header{Nonce: b.nonce, Round: b.round, Epoch: b.epoch, ShardID: selfShard}
	return repo.RecordBlock(blockHash(b), hdr, body, nil, nil)
}

func doNotify(repo dblookupext.HistoryRepository, call []metaBlk) {
	hdrs := []data.HeaderHandler{}
	hashes := [][]byte{}
	for _, m := range call {
		mb := &block.MetaBlock{Nonce: m.nonce, Round: 1000 + m.nonce}
		for _, l := range m.list {
			mini := miniblocks[l.mb]
			h := block.MiniBlockHeader{Hash: mbHashes[l.mb], SenderShardID: mini.SenderShardID, ReceiverShardID: mini.ReceiverShardID, Type: mini.Type, TxCount: uint32(len(mini.TxHashes))}
			found := false
			for i := range mb.ShardInfo {
				if mb.ShardInfo[i].ShardID == l.shard {
					mb.ShardInfo[i].ShardMiniBlockHeaders = append(mb.ShardInfo[i].ShardMiniBlockHeaders, h)
					found = true
				}
			}
			if !found {
				mb.ShardInfo = append(mb.ShardInfo, block.ShardData{ShardID: l.shard, HeaderHash: []byte(fmt.Sprintf("shard-%d-hdr-in-%s", l.shard, m.name)), ShardMiniBlockHeaders: []block.MiniBlockHeader{h}})
			}
		}
		hdrs = append(hdrs, mb)
		hashes = append(hashes, metaHash(m))
	}
	repo.OnNotarizedBlocks(core.MetachainShardId, hdrs, hashes)
}

// ---- reference -------------------------------------------------------------------------

type delivery struct {
	at    int // event index in the sequence
	nonce uint64
	hash  []byte
}

type ref struct {
	recs      [2][]int         // per miniblock: sequence positions of records containing it
	recBlk    [2][]int         // ... and the block recorded there
	deliv     [2][2][]delivery // per miniblock, per side
	ntfAt     []int            // positions of all OnNotarizedBlocks calls
	blocksRec map[int]bool
}

// sidesOf: which sides a listing of miniblock mb in the shard data of `shard` notarizes.
func sidesOf(mb int, shard uint32) []int {
	m := miniblocks[mb]
	if m.SenderShardID == m.ReceiverShardID {
		return []int{sideSrc, sideDst}
	}
	if shard == m.SenderShardID {
		return []int{sideSrc}
	}
	if shard == m.ReceiverShardID {
		return []int{sideDst}
	}
	return nil
}

func names(seq []int) []string {
	r := make([]string, len(seq))
	for i, e := range seq {
		r[i] = menu[e].name
	}
	return r
}

// runSeq replays one sequence on a fresh repository and judges the final state.
func runSeq(c *mc.Ctx, seq []int, rank int) {
	c.Eval(1)
	repo := newRepo()
	r := &ref{blocksRec: map[int]bool{}}
	viol := func(sig string, extra map[string]interface{}) {
		d := map[string]interface{}{"history": names(seq)}
		for k, v := range extra {
			d[k] = v
		}
		c.ViolationR(sig, rank, d, seq)
	}
	for pos, e := range seq {
		ev := menu[e]
		if ev.rec >= 0 {
			b := blocks[ev.rec]
			var err error
			if p := mc.Try(func() { err = doRecord(repo, b) }); p != "" {
				viol("RecordBlock:panic", map[string]interface{}{"panic": p})
				return
			}
			if err != nil {
				viol("RecordBlock:error", map[string]interface{}{"err": err.Error()})
				return
			}
			r.blocksRec[ev.rec] = true
			for _, m := range b.mbs {
				r.recs[m] = append(r.recs[m], pos)
				r.recBlk[m] = append(r.recBlk[m], ev.rec)
			}
		} else {
			call := notifs[ev.ntf]
			if p := mc.Try(func() { doNotify(repo, call) }); p != "" {
				viol("OnNotarizedBlocks:panic", map[string]interface{}{"panic": p})
				return
			}
			r.ntfAt = append(r.ntfAt, pos)
			for _, m := range call {
				for _, l := range m.list {
					for _, s := range sidesOf(l.mb, l.shard) {
						r.deliv[l.mb][s] = append(r.deliv[l.mb][s], delivery{pos, m.nonce, metaHash(m)})
					}
				}
			}
		}
	}

	judge(c, repo, r, viol, seq, true)
}

// judge evaluates the final state of repo against the reference r; every failed clause is
// reported through viol. With record=false nothing is counted (used by the concurrent phase,
// which judges one final state against several candidate linearizations).
func judge(c *mc.Ctx, repo dblookupext.HistoryRepository, r *ref, viol func(sig string, extra map[string]interface{}), seq []int, record bool) {
	nontrivial := false
	out := []string{}
	for bi := range blocks {
		if !r.blocksRec[bi] {
			continue
		}
		ep, err := repo.GetEpochByHash(blockHash(blocks[bi]))
		if err != nil || ep != blocks[bi].epoch {
			viol("epoch-by-hash:block-epoch-wrong", map[string]interface{}{"block": blocks[bi].name, "got": ep, "err": fmt.Sprint(err), "want": blocks[bi].epoch})
		}
	}
	for m := range miniblocks {
		if len(r.recs[m]) == 0 {
			continue
		}
		want := blocks[r.recBlk[m][len(r.recBlk[m])-1]]
		distinct := map[int]bool{}
		for _, b := range r.recBlk[m] {
			distinct[b] = true
		}
		if len(distinct) >= 2 || len(r.deliv[m][sideSrc])+len(r.deliv[m][sideDst]) > 0 {
			nontrivial = true
		}
		// was the (epoch, miniblock) pair of the last record already recorded earlier?
		sameEpochEarlier := false
		for _, b := range r.recBlk[m][:len(r.recBlk[m])-1] {
			if blocks[b].epoch == want.epoch {
				sameEpochEarlier = true
			}
		}
		ep, err := repo.GetEpochByHash(mbHashes[m])
		if err != nil || ep != want.epoch {
			sig := "epoch-by-hash:miniblock-epoch-wrong"
			if err == nil && sameEpochEarlier {
				sig = "epoch-by-hash:miniblock-epoch-stale:miniblock-re-recorded-in-an-epoch-it-was-recorded-in-before"
			}
			viol(sig, map[string]interface{}{"miniblock": mbNames[m], "got": ep, "err": fmt.Sprint(err), "want": want.epoch})
		}
		var first *dblookupext.MiniblockMetadata
		for ti, tx := range miniblocks[m].TxHashes {
			md, err := repo.GetMiniblockMetadataByTxHash(tx)
			if err != nil || md == nil {
				viol("lookup:fails-for-recorded-transaction", map[string]interface{}{"miniblock": mbNames[m], "tx": string(tx), "err": fmt.Sprint(err)})
				continue
			}
			if ti == 0 {
				first = md
			} else if !md.Equal(first) {
				viol("lookup:transactions-of-one-miniblock-disagree", map[string]interface{}{"miniblock": mbNames[m]})
			}
			if ti > 0 {
				continue
			}
			if !bytes.Equal(md.MiniblockHash, mbHashes[m]) || md.SourceShardID != miniblocks[m].SenderShardID ||
				md.DestinationShardID != miniblocks[m].ReceiverShardID || md.Type != int32(miniblocks[m].Type) {
				viol("lookup:miniblock-identity-fields-wrong", map[string]interface{}{"miniblock": mbNames[m], "got": md.String()})
			}
			gotName := "?"
			for _, b := range blocks {
				if bytes.Equal(md.HeaderHash, blockHash(b)) {
					gotName = b.name
				}
			}
			if !bytes.Equal(md.HeaderHash, blockHash(want)) || md.HeaderNonce != want.nonce || md.Round != want.round || md.Epoch != want.epoch {
				stale := false
				for _, b := range r.recBlk[m][:len(r.recBlk[m])-1] {
					bb := blocks[b]
					if bytes.Equal(md.HeaderHash, blockHash(bb)) && md.HeaderNonce == bb.nonce && md.Round == bb.round && md.Epoch == bb.epoch {
						stale = true
					}
				}
				sig := "lookup:header-fields-wrong"
				if stale && sameEpochEarlier {
					sig = "lookup:reports-earlier-block:miniblock-re-recorded-in-an-epoch-it-was-recorded-in-before"
				} else if stale {
					sig = "lookup:reports-earlier-block:other-history"
				}
				viol(sig, map[string]interface{}{"miniblock": mbNames[m],
					"got":  map[string]interface{}{"block": gotName, "nonce": md.HeaderNonce, "round": md.Round, "epoch": md.Epoch},
					"want": map[string]interface{}{"block": want.name, "nonce": want.nonce, "round": want.round, "epoch": want.epoch}})
			}
			o := fmt.Sprintf("%s@%s", mbNames[m], gotName)
			for s := 0; s < 2; s++ {
				gotNonce, gotHash := md.NotarizedAtSourceInMetaNonce, md.NotarizedAtSourceInMetaHash
				sname := "source"
				if s == sideDst {
					gotNonce, gotHash = md.NotarizedAtDestinationInMetaNonce, md.NotarizedAtDestinationInMetaHash
					sname = "destination"
				}
				D := r.deliv[m][s]
				det := map[string]interface{}{"miniblock": mbNames[m], "side": sname, "got_nonce": gotNonce, "got_hash": string(gotHash)}
				empty := gotNonce == 0 && len(gotHash) == 0
				switch {
				case len(D) == 0 && !empty:
					viol("notarization:reported-without-any-notification", det)
					o += "/!"
				case len(D) == 0:
					o += "/-"
				case empty:
					viol(classifyMissing(r, m, s), det)
					o += "/missing"
				default:
					ok, latest := false, false
					for i, d := range D {
						if d.nonce == gotNonce && bytes.Equal(d.hash, gotHash) {
							ok = true
							latest = i == len(D)-1 || (D[len(D)-1].nonce == d.nonce)
						}
					}
					if !ok {
						viol("notarization:not-a-delivered-meta-block", det)
					}
					if latest {
						o += "/latest"
					} else {
						o += "/older"
					}
				}
			}
			out = append(out, o)
		}
	}
	if !record {
		return
	}
	if nontrivial {
		c.Nontrivial(fmt.Sprint(seq))
		if c.WantSample() && len(seq) >= 3 {
			c.Sample(map[string]interface{}{"history": names(seq), "observed": out})
		}
	}
	c.Outcome(strings.Join(out, " "))
}

// buildRef is the reference bookkeeping of a sequence (what runSeq accumulates while replaying).
func buildRef(seq []int) *ref {
	r := &ref{blocksRec: map[int]bool{}}
	for pos, e := range seq {
		ev := menu[e]
		if ev.rec >= 0 {
			r.blocksRec[ev.rec] = true
			for _, m := range blocks[ev.rec].mbs {
				r.recs[m] = append(r.recs[m], pos)
				r.recBlk[m] = append(r.recBlk[m], ev.rec)
			}
			continue
		}
		r.ntfAt = append(r.ntfAt, pos)
		for _, m := range notifs[ev.ntf] {
			for _, l := range m.list {
				for _, sd := range sidesOf(l.mb, l.shard) {
					r.deliv[l.mb][sd] = append(r.deliv[l.mb][sd], delivery{pos, m.nonce, metaHash(m)})
				}
			}
		}
	}
	return r
}

// classifyMissing names the history shape that explains an empty notarization side although a
// notification for it was delivered and the miniblock is recorded.
func classifyMissing(r *ref, m, s int) string {
	firstRec := r.recs[m][0]
	D := r.deliv[m][s]
	// A delivery is "settled" at the first OnNotarizedBlocks call at or after it that finds a
	// record of the miniblock (that call could write it into the record).
	settledSomewhere := false
	for _, d := range D {
		t := -1
		for _, p := range r.ntfAt {
			if p >= d.at && p > firstRec {
				t = p
				break
			}
		}
		if t < 0 {
			continue
		}
		settledSomewhere = true
		// epoch of the record current at time t vs. epochs recorded afterwards
		cur := uint32(0)
		for i, p := range r.recs[m] {
			if p < t {
				cur = blocks[r.recBlk[m][i]].epoch
			}
		}
		for i, p := range r.recs[m] {
			if p > t && blocks[r.recBlk[m][i]].epoch != cur {
				return "notarization:lost:miniblock-re-recorded-in-another-epoch-after-the-notification"
			}
		}
	}
	if settledSomewhere {
		return "notarization:missing:other-history"
	}
	// every delivery preceded the first record and no OnNotarizedBlocks call followed it
	return "notarization:missing:notified-before-first-record-and-no-notification-since"
}

func main() {
	mc.Main("C46", "exploration", func(c *mc.Ctx) {
		m := &marshal.GogoProtoMarshalizer{}
		h := blake2b.NewBlake2b()
		for _, mb := range miniblocks {
			hash, err := core.CalculateHash(m, h, mb)
			if err != nil {
				c.Fatal("miniblock hash: %v", err)
			}
			mbHashes = append(mbHashes, hash)
		}
		maxLen := c.Pick(5, 6)
		evNames := []string{}
		for _, e := range menu {
			evNames = append(evNames, e.name)
		}
		c.Rule = fmt.Sprintf("every sequence (with repetition) of 1..%d events from the %d-event menu %v, each replayed on a fresh real historyRepository (self shard 0; m1 = cross-shard 1->0 with 2 txs, m2 = intra-shard 0->0; blocks A,B compete at nonce 10 epoch 0, D/E re-include m1/m2 in epoch 1) and judged after its last event; non-trivial = some miniblock was recorded in >=2 distinct blocks or has both a record and a delivered notification", maxLen, len(menu), evNames)
		c.Bound = fmt.Sprintf("sequence length <= %d over %d events", maxLen, len(menu))
		c.Assumptions = []string{
			"sequence phase: API calls are applied one after the other; concurrent phase (concurrent.go): 2/3 calls run as real goroutines, every mutex operation of core/dblookupext and core/container is a scheduling point, all schedules are executed and the final state must be explained by some linearization",
			"'most recently committed block' = block of the most recent RecordBlock call containing the miniblock (the repository has no roll-back call)",
			"judged after every completed call: every prefix is an enumerated sequence; lookups are made only after the last event of a sequence",
			"notarization: once a record and a notification for a side both arrived, that side carries nonce+hash of one of the delivered meta blocks listing the miniblock on that side (which one, when several, is not promised); before any notification the side is empty",
			"index storers behave as static storers (never change epoch); metadata storer is addressed by epoch (PutInEpoch/GetFromEpoch)",
			"lookups of never-recorded miniblocks are not judged",
		}
		if len(c.ReplayData) > 0 {
			var seq []int
			if err := json.Unmarshal(c.ReplayData, &seq); err != nil {
				c.Fatal("bad replay data: %v", err)
			}
			runSeq(c, seq, 0)
			return
		}
		// sequences in order of length, then lexicographic: index = rank (shortest witness kept)
		n := len(menu)
		var offs []int // offs[L] = number of sequences shorter than L
		total, pow := 0, 1
		for L := 1; L <= maxLen; L++ {
			pow *= n
			offs = append(offs, total)
			total += pow
		}
		mc.Par(total, func(i int) {
			L := 1
			for L < maxLen && i >= offs[L] {
				L++
			}
			k := i - offs[L-1]
			seq := make([]int, L)
			for p := L - 1; p >= 0; p-- {
				seq[p] = k % n
				k /= n
			}
			runSeq(c, seq, i)
		})
		c.Set("sequences", total)
		concurrentPhase(c)
	})
}
