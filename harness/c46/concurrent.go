package main

// Concurrent phase of C46 ("in whichever order the record and the notification arrived" is
// also quantified over schedules): after a short sequential prefix, 2 (quick) / 3 (thorough)
// API calls run as real goroutines under the cooperative scheduler; the `sync` imports of
// core/dblookupext and core/container are shimmed (profile c46), so every mutex operation of
// the repository is a scheduling point. ALL schedules are executed. When all calls have
// returned, the final state must satisfy the sequential oracle for at least one
// linearization (permutation) of the concurrent calls appended to the prefix.

import (
	"fmt"

	"github.com/ElrondNetwork/elrond-go/core/dblookupext"
	"verif/engine/mc"
	"verif/engine/vsched"
)

func menuIndex(name string) int {
	for i, e := range menu {
		if e.name == name {
			return i
		}
	}
	panic("no menu event " + name)
}

func permutations(xs []int) [][]int {
	if len(xs) <= 1 {
		return [][]int{append([]int{}, xs...)}
	}
	var out [][]int
	for i := range xs {
		rest := append(append([]int{}, xs[:i]...), xs[i+1:]...)
		for _, p := range permutations(rest) {
			out = append(out, append([]int{xs[i]}, p...))
		}
	}
	return out
}

func concurrentPhase(c *mc.Ctx) {
	// reduced menu: the events whose mutual order matters
	var cm []int
	for i, e := range menu {
		if e.rec >= 0 && (blocks[e.rec].name == "A" || blocks[e.rec].name == "B" || blocks[e.rec].name == "D") {
			cm = append(cm, i)
		}
		if e.ntf >= 0 && e.ntf <= 2 { // m1@source, m1@destination, m1@both
			cm = append(cm, i)
		}
		if e.name == "ntf(empty)" {
			cm = append(cm, i)
		}
	}
	prefixes := [][]int{{}}
	for _, i := range cm[:2] {
		prefixes = append(prefixes, []int{i})
	}
	prefixes = append(prefixes, []int{cm[3]})
	n := c.Pick(2, 3)
	var combos [][]int
	var rec func(cur []int, from int)
	rec = func(cur []int, from int) {
		if len(cur) == n {
			combos = append(combos, append([]int{}, cur...))
			return
		}
		for i := from; i < len(cm); i++ {
			rec(append(cur, cm[i]), i)
		}
	}
	rec(nil, 0)
	total := int64(0)
	for _, pre := range prefixes {
		for _, combo := range combos {
			pre, combo := pre, combo
			perms := permutations(combo)
			st := mc.Explore(c, -1, 1, func(ch *mc.Chooser) {
				repo := newRepo()
				for _, e := range pre {
					applyEvent(repo, e)
				}
				bodies := make([]func(), len(combo))
				for i, e := range combo {
					e := e
					bodies[i] = func() { applyEvent(repo, e) }
				}
				s := vsched.Run(ch, vsched.Options{Horizon: 5000}, bodies...)
				desc := map[string]interface{}{"prefix": names(pre), "concurrent": names(combo), "schedule": ch.Choices()}
				if s.Deadlock {
					c.ViolationR("concurrent:deadlock", len(ch.Choices()), desc, nil)
					return
				}
				if s.PanicValue != "" {
					desc["panic"] = s.PanicValue
					c.ViolationR("concurrent:panic", len(ch.Choices()), desc, nil)
					return
				}
				if s.HorizonHit {
					c.Cap("scheduler horizon")
					return
				}
				var firstSig string
				var firstExtra map[string]interface{}
				ok := false
				for _, p := range perms {
					seq := append(append([]int{}, pre...), p...)
					bad := ""
					var ex map[string]interface{}
					judge(c, repo, buildRef(seq), func(sig string, extra map[string]interface{}) {
						if bad == "" {
							bad, ex = sig, extra
						}
					}, seq, false)
					if bad == "" {
						ok = true
						break
					}
					if firstSig == "" {
						firstSig, firstExtra = bad, ex
					}
				}
				c.Outcome(fmt.Sprint("conc-ok=", ok))
				if !ok {
					desc["violated_for_every_linearization_first"] = firstSig
					desc["detail"] = firstExtra
					c.ViolationR("concurrent:no-linearization-explains-final-state:"+firstSig, len(ch.Choices()), desc, nil)
				}
				if s.Preemptions > 0 {
					c.Nontrivial(fmt.Sprint("conc", pre, combo, ch.Choices()))
				}
			})
			total += st.Executions
		}
	}
	c.Count("concurrent_schedules", total)
	c.Set("concurrent_scenarios", len(prefixes)*len(combos))
}

func applyEvent(repo dblookupext.HistoryRepository, e int) {
	ev := menu[e]
	if ev.rec >= 0 {
		_ = doRecord(repo, blocks[ev.rec])
		return
	}
	doNotify(repo, notifs[ev.ntf])
}
